import TerwayModel.Proofs.PodEniSafe
/-
Interface-side invariant of the PodENI lifecycle model: ids are fresh, what the pod controller has just
created is young and unrecorded, and the leak collector's candidates stay ours, old and unreferenced.
(Generated layout: one definition per fact, one preservation lemma per fact and actor.)
-/
namespace Terway.PE


theorem mem_setAtt {c : List Eni} {id : Nat} {a : Option Nat} {en : Eni} (h : en ∈ setAtt c id a) :
    ∃ e0 ∈ c, en.id = e0.id ∧ en.ctime = e0.ctime ∧ en.ours = e0.ours ∧ en.member = e0.member ∧ en.ip = e0.ip := by
  simp only [setAtt, List.mem_map] at h
  obtain ⟨e0, h0, rfl⟩ := h
  refine ⟨e0, h0, ?_⟩
  split <;> simp

theorem setAtt_ids (c : List Eni) (id : Nat) (a : Option Nat) : (setAtt c id a).map (·.id) = c.map (·.id) := by
  simp only [setAtt, List.map_map]
  apply List.map_congr_left
  intro e _
  simp only [Function.comp]
  split <;> rfl

theorem mem_remove {c : List Eni} {id : Nat} {en : Eni} (h : en ∈ remove c id) : en ∈ c ∧ en.id ≠ id := by
  simpa [remove] using h

theorem remove_ids_sublist (c : List Eni) (id : Nat) : ((remove c id).map (·.id)).Sublist (c.map (·.id)) := by
  simp only [remove]
  exact (List.filter_sublist).map _

theorem stamp_enis (made : List Alloc) (allocs : List (Nat × Strat)) : (stamp made allocs).map (·.eni) = made.map (·.eni) := by
  simp [stamp, List.map_map, Function.comp_def]

/-- in a list with strictly increasing ids an id names one entry -/
theorem sorted_inj {l : List Eni} (h : (l.map (·.id)).Pairwise (· < ·)) {a b : Eni} (ha : a ∈ l) (hb : b ∈ l)
    (hab : a.id = b.id) : a = b := by
  induction l with
  | nil => cases ha
  | cons x xs ih =>
    simp only [List.map_cons, List.pairwise_cons, List.mem_map, forall_exists_index, and_imp,
      forall_apply_eq_imp_iff₂] at h
    rcases List.mem_cons.mp ha with rfl | ha' <;> rcases List.mem_cons.mp hb with rfl | hb'
    · rfl
    · have := h.1 b hb'; omega
    · have := h.1 a ha'; omega
    · exact ih h.2 ha' hb'


def Sorted (c : List Eni) : Prop := (c.map (·.id)).Pairwise (· < ·)

theorem Sorted.snoc {l : List Eni} {e : Eni} (h : Sorted l) (hl : ∀ x ∈ l, x.id < e.id) : Sorted (l ++ [e]) := by
  simp only [Sorted, List.map_append, List.map_cons, List.map_nil, List.pairwise_append, List.pairwise_cons, List.Pairwise.nil, List.mem_map, List.mem_cons, List.not_mem_nil, or_false, forall_exists_index, and_imp,
    forall_apply_eq_imp_iff₂]
  exact ⟨h, by simp, fun a ha b hb => hb ▸ hl a ha⟩

theorem Sorted.setAtt {c : List Eni} (h : Sorted c) (id : Nat) (a : Option Nat) : Sorted (setAtt c id a) := by
  simpa [Sorted, setAtt_ids] using h

theorem Sorted.remove {c : List Eni} (h : Sorted c) (id : Nat) : Sorted (remove c id) :=
  List.Pairwise.sublist (remove_ids_sublist c id) h

theorem Sorted.inj {c : List Eni} (h : Sorted c) {a b : Eni} (ha : a ∈ c) (hb : b ∈ c) (hab : a.id = b.id) : a = b :=
  sorted_inj h ha hb hab

theorem mem_stamp {made : List Alloc} {allocs : List (Nat × Strat)} {a : Alloc} (h : a ∈ stamp made allocs) :
    ∃ a0 ∈ made, a.eni = a0.eni ∧ a.ip = a0.ip := by
  simp only [stamp, List.mem_map] at h
  obtain ⟨a0, h0, rfl⟩ := h
  exact ⟨a0, h0, rfl, rfl⟩

theorem grace_pos : 0 < grace := by decide

theorem mem_erase_of {l : List Nat} {a b : Nat} (h : a ∈ l.erase b) : a ∈ l := List.mem_of_mem_erase h

theorem leakCand_iff (now : Nat) (e : Eni) : leakCand now e = true ↔ e.ours = true ∧ e.ctime + grace ≤ now := by
  simp [leakCand]

/-- interface ids in the cloud are strictly increasing (ids are never reused) -/
def CSort (s : St) : Prop :=
  Sorted s.cloud

/-- every interface id is below the next fresh one -/
def CLt (s : St) : Prop :=
  ∀ en ∈ s.cloud, en.id < s.nextEni

/-- so is every id a record names -/
def RLt (s : St) : Prop :=
  ∀ c, s.rcd = some c → ∀ a ∈ c.allocs, a.eni < s.nextEni

/-- interfaces the pod controller has created and not yet recorded: brand new (no clock step since) and named by no record -/
def PMade (s : St) : Prop :=
  ∀ u made f, s.p = .creating u made f → ∀ a ∈ made, a.eni < s.nextEni ∧ (∀ en ∈ s.cloud, en.id = a.eni → en.ctime = s.now) ∧ (∀ c, s.rcd = some c → ∀ b ∈ c.allocs, b.eni ≠ a.eni)

/-- interfaces left to roll back are named by no record -/
def PRoll (s : St) : Prop :=
  ∀ rem, s.p = .rollback rem → ∀ e ∈ rem, e < s.nextEni ∧ ∀ c, s.rcd = some c → ∀ b ∈ c.allocs, b.eni ≠ e

/-- the leak collector's candidates after its cloud listing: ours, older than the grace period, not just created by the pod controller -/
def LCandD (s : St) : Prop :=
  ∀ cands u, s.l = .desc cands u → ∀ e ∈ cands, e < s.nextEni ∧ (∀ en ∈ s.cloud, en.id = e → en.ours = true ∧ en.ctime + grace ≤ s.now) ∧ (∀ u2 made f, s.p = .creating u2 made f → ∀ a ∈ made, a.eni ≠ e)

/-- the same after the record listing -/
def LCandL (s : St) : Prop :=
  ∀ cands u, s.l = .listed cands u → ∀ e ∈ cands, e < s.nextEni ∧ (∀ en ∈ s.cloud, en.id = e → en.ours = true ∧ en.ctime + grace ≤ s.now) ∧ (∀ u2 made f, s.p = .creating u2 made f → ∀ a ∈ made, a.eni ≠ e)

/-- after the listing: named by no record -/
def LList (s : St) : Prop :=
  ∀ cands u, s.l = .listed cands u → ∀ e ∈ cands, ∀ c, s.rcd = some c → ∀ b ∈ c.allocs, b.eni ≠ e

structure Inv3 (s : St) : Prop where
  fCSort : CSort s
  fCLt : CLt s
  fRLt : RLt s
  fPMade : PMade s
  fPRoll : PRoll s
  fLCandD : LCandD s
  fLCandL : LCandL s
  fLList : LList s

theorem Inv3.init : Inv3 {} := by
  constructor <;> simp [CSort, CLt, RLt, PMade, PRoll, LCandD, LCandL, LList, Sorted]

set_option maxHeartbeats 4000000 in
theorem CSort.stepEnv {s t : St} {ev : Ev} (h : Inv3 s) (hs : PE.stepEnv s ev = some t) : CSort t := by
  obtain ⟨c0, c1, c2, c3, c4, c5, c6, c7⟩ := h
  revert hs
  fun_cases PE.stepEnv s ev <;> intro hs <;> (first | cases hs | skip)
  all_goals (try simp only [bump_some _ _ _ (by assumption : s.rcd = some _)])
  all_goals (first | assumption | grind [pStatusOK_true, pAfterDel, pAfterCre, mem_stamp, grace_pos, List.mem_filter, List.mem_map, Sorted.snoc, Sorted.setAtt, Sorted.remove, Sorted.inj, mem_setAtt, mem_remove, stamp_enis, mem_erase_of, leakCand_iff, Rec.enis, PPc.inCreate, markDel_allocs, CSort, CLt, RLt, PMade, PRoll, LCandD, LCandL, LList])

set_option maxHeartbeats 4000000 in
theorem CSort.stepP {s t : St} {ev : Ev} (h : Inv3 s) (hs : PE.stepP s ev = some t) : CSort t := by
  obtain ⟨c0, c1, c2, c3, c4, c5, c6, c7⟩ := h
  revert hs
  fun_cases PE.stepP s ev <;> intro hs <;> (first | cases hs | skip)
  all_goals (try simp only [deleteRec_some _ _ (by assumption : s.rcd = some _), bindRec, bump_some _ _ _ (by assumption : s.rcd = some _)])
  all_goals (first | assumption | grind [pStatusOK_true, pAfterDel, pAfterCre, mem_stamp, grace_pos, List.mem_filter, List.mem_map, Sorted.snoc, Sorted.setAtt, Sorted.remove, Sorted.inj, mem_setAtt, mem_remove, stamp_enis, mem_erase_of, leakCand_iff, Rec.enis, PPc.inCreate, markDel_allocs, CSort, CLt, RLt, PMade, PRoll, LCandD, LCandL, LList])

set_option maxHeartbeats 4000000 in
theorem CSort.stepE {s t : St} {ev : Ev} (h : Inv3 s) (hs : PE.stepE s ev = some t) : CSort t := by
  obtain ⟨c0, c1, c2, c3, c4, c5, c6, c7⟩ := h
  revert hs
  fun_cases PE.stepE s ev <;> intro hs <;> (first | cases hs | skip)
  all_goals (try simp only [deleteRec_some _ _ (by assumption : s.rcd = some _), bindRec, bump_some _ _ _ (by assumption : s.rcd = some _)])
  all_goals (first | assumption | grind [pStatusOK_true, pAfterDel, pAfterCre, mem_stamp, grace_pos, List.mem_filter, List.mem_map, Sorted.snoc, Sorted.setAtt, Sorted.remove, Sorted.inj, mem_setAtt, mem_remove, stamp_enis, mem_erase_of, leakCand_iff, Rec.enis, PPc.inCreate, markDel_allocs, CSort, CLt, RLt, PMade, PRoll, LCandD, LCandL, LList])

set_option maxHeartbeats 4000000 in
theorem CSort.stepG {s t : St} {ev : Ev} (h : Inv3 s) (hs : PE.stepG s ev = some t) : CSort t := by
  obtain ⟨c0, c1, c2, c3, c4, c5, c6, c7⟩ := h
  revert hs
  fun_cases PE.stepG s ev <;> intro hs <;> (first | cases hs | skip)
  all_goals (try simp only [bump_some _ _ _ (by assumption : s.rcd = some _)])
  all_goals (first | assumption | grind [pStatusOK_true, pAfterDel, pAfterCre, mem_stamp, grace_pos, List.mem_filter, List.mem_map, Sorted.snoc, Sorted.setAtt, Sorted.remove, Sorted.inj, mem_setAtt, mem_remove, stamp_enis, mem_erase_of, leakCand_iff, Rec.enis, PPc.inCreate, markDel_allocs, CSort, CLt, RLt, PMade, PRoll, LCandD, LCandL, LList])

set_option maxHeartbeats 4000000 in
theorem CSort.stepL {s t : St} {ev : Ev} (h : Inv3 s) (hs : PE.stepL s ev = some t) : CSort t := by
  obtain ⟨c0, c1, c2, c3, c4, c5, c6, c7⟩ := h
  revert hs
  fun_cases PE.stepL s ev <;> intro hs <;> (first | cases hs | skip)
  all_goals (try simp only [bump_some _ _ _ (by assumption : s.rcd = some _)])
  all_goals (first | assumption | grind [pStatusOK_true, pAfterDel, pAfterCre, mem_stamp, grace_pos, List.mem_filter, List.mem_map, Sorted.snoc, Sorted.setAtt, Sorted.remove, Sorted.inj, mem_setAtt, mem_remove, stamp_enis, mem_erase_of, leakCand_iff, Rec.enis, PPc.inCreate, markDel_allocs, CSort, CLt, RLt, PMade, PRoll, LCandD, LCandL, LList])

set_option maxHeartbeats 4000000 in
theorem CLt.stepEnv {s t : St} {ev : Ev} (h : Inv3 s) (hs : PE.stepEnv s ev = some t) : CLt t := by
  obtain ⟨c0, c1, c2, c3, c4, c5, c6, c7⟩ := h
  revert hs
  fun_cases PE.stepEnv s ev <;> intro hs <;> (first | cases hs | skip)
  all_goals (try simp only [bump_some _ _ _ (by assumption : s.rcd = some _)])
  all_goals (first | assumption | grind [pStatusOK_true, pAfterDel, pAfterCre, mem_stamp, grace_pos, List.mem_filter, List.mem_map, Sorted.snoc, Sorted.setAtt, Sorted.remove, Sorted.inj, mem_setAtt, mem_remove, stamp_enis, mem_erase_of, leakCand_iff, Rec.enis, PPc.inCreate, markDel_allocs, CSort, CLt, RLt, PMade, PRoll, LCandD, LCandL, LList])

set_option maxHeartbeats 4000000 in
theorem CLt.stepP {s t : St} {ev : Ev} (h : Inv3 s) (hs : PE.stepP s ev = some t) : CLt t := by
  obtain ⟨c0, c1, c2, c3, c4, c5, c6, c7⟩ := h
  revert hs
  fun_cases PE.stepP s ev <;> intro hs <;> (first | cases hs | skip)
  all_goals (try simp only [deleteRec_some _ _ (by assumption : s.rcd = some _), bindRec, bump_some _ _ _ (by assumption : s.rcd = some _)])
  all_goals (first | assumption | grind [pStatusOK_true, pAfterDel, pAfterCre, mem_stamp, grace_pos, List.mem_filter, List.mem_map, Sorted.snoc, Sorted.setAtt, Sorted.remove, Sorted.inj, mem_setAtt, mem_remove, stamp_enis, mem_erase_of, leakCand_iff, Rec.enis, PPc.inCreate, markDel_allocs, CSort, CLt, RLt, PMade, PRoll, LCandD, LCandL, LList])

set_option maxHeartbeats 4000000 in
theorem CLt.stepE {s t : St} {ev : Ev} (h : Inv3 s) (hs : PE.stepE s ev = some t) : CLt t := by
  obtain ⟨c0, c1, c2, c3, c4, c5, c6, c7⟩ := h
  revert hs
  fun_cases PE.stepE s ev <;> intro hs <;> (first | cases hs | skip)
  all_goals (try simp only [deleteRec_some _ _ (by assumption : s.rcd = some _), bindRec, bump_some _ _ _ (by assumption : s.rcd = some _)])
  all_goals (first | assumption | grind [pStatusOK_true, pAfterDel, pAfterCre, mem_stamp, grace_pos, List.mem_filter, List.mem_map, Sorted.snoc, Sorted.setAtt, Sorted.remove, Sorted.inj, mem_setAtt, mem_remove, stamp_enis, mem_erase_of, leakCand_iff, Rec.enis, PPc.inCreate, markDel_allocs, CSort, CLt, RLt, PMade, PRoll, LCandD, LCandL, LList])

set_option maxHeartbeats 4000000 in
theorem CLt.stepG {s t : St} {ev : Ev} (h : Inv3 s) (hs : PE.stepG s ev = some t) : CLt t := by
  obtain ⟨c0, c1, c2, c3, c4, c5, c6, c7⟩ := h
  revert hs
  fun_cases PE.stepG s ev <;> intro hs <;> (first | cases hs | skip)
  all_goals (try simp only [bump_some _ _ _ (by assumption : s.rcd = some _)])
  all_goals (first | assumption | grind [pStatusOK_true, pAfterDel, pAfterCre, mem_stamp, grace_pos, List.mem_filter, List.mem_map, Sorted.snoc, Sorted.setAtt, Sorted.remove, Sorted.inj, mem_setAtt, mem_remove, stamp_enis, mem_erase_of, leakCand_iff, Rec.enis, PPc.inCreate, markDel_allocs, CSort, CLt, RLt, PMade, PRoll, LCandD, LCandL, LList])

set_option maxHeartbeats 4000000 in
theorem CLt.stepL {s t : St} {ev : Ev} (h : Inv3 s) (hs : PE.stepL s ev = some t) : CLt t := by
  obtain ⟨c0, c1, c2, c3, c4, c5, c6, c7⟩ := h
  revert hs
  fun_cases PE.stepL s ev <;> intro hs <;> (first | cases hs | skip)
  all_goals (try simp only [bump_some _ _ _ (by assumption : s.rcd = some _)])
  all_goals (first | assumption | grind [pStatusOK_true, pAfterDel, pAfterCre, mem_stamp, grace_pos, List.mem_filter, List.mem_map, Sorted.snoc, Sorted.setAtt, Sorted.remove, Sorted.inj, mem_setAtt, mem_remove, stamp_enis, mem_erase_of, leakCand_iff, Rec.enis, PPc.inCreate, markDel_allocs, CSort, CLt, RLt, PMade, PRoll, LCandD, LCandL, LList])

set_option maxHeartbeats 4000000 in
theorem RLt.stepEnv {s t : St} {ev : Ev} (h : Inv3 s) (hs : PE.stepEnv s ev = some t) : RLt t := by
  obtain ⟨c0, c1, c2, c3, c4, c5, c6, c7⟩ := h
  revert hs
  fun_cases PE.stepEnv s ev <;> intro hs <;> (first | cases hs | skip)
  all_goals (try simp only [bump_some _ _ _ (by assumption : s.rcd = some _)])
  all_goals (first | assumption | grind [pStatusOK_true, pAfterDel, pAfterCre, mem_stamp, grace_pos, List.mem_filter, List.mem_map, Sorted.snoc, Sorted.setAtt, Sorted.remove, Sorted.inj, mem_setAtt, mem_remove, stamp_enis, mem_erase_of, leakCand_iff, Rec.enis, PPc.inCreate, markDel_allocs, CSort, CLt, RLt, PMade, PRoll, LCandD, LCandL, LList])

set_option maxHeartbeats 4000000 in
theorem RLt.stepP {s t : St} {ev : Ev} (h : Inv3 s) (hs : PE.stepP s ev = some t) : RLt t := by
  obtain ⟨c0, c1, c2, c3, c4, c5, c6, c7⟩ := h
  revert hs
  fun_cases PE.stepP s ev <;> intro hs <;> (first | cases hs | skip)
  all_goals (try simp only [deleteRec_some _ _ (by assumption : s.rcd = some _), bindRec, bump_some _ _ _ (by assumption : s.rcd = some _)])
  all_goals (first | assumption | grind [pStatusOK_true, pAfterDel, pAfterCre, mem_stamp, grace_pos, List.mem_filter, List.mem_map, Sorted.snoc, Sorted.setAtt, Sorted.remove, Sorted.inj, mem_setAtt, mem_remove, stamp_enis, mem_erase_of, leakCand_iff, Rec.enis, PPc.inCreate, markDel_allocs, CSort, CLt, RLt, PMade, PRoll, LCandD, LCandL, LList])

set_option maxHeartbeats 4000000 in
theorem RLt.stepE {s t : St} {ev : Ev} (h : Inv3 s) (hs : PE.stepE s ev = some t) : RLt t := by
  obtain ⟨c0, c1, c2, c3, c4, c5, c6, c7⟩ := h
  revert hs
  fun_cases PE.stepE s ev <;> intro hs <;> (first | cases hs | skip)
  all_goals (try simp only [deleteRec_some _ _ (by assumption : s.rcd = some _), bindRec, bump_some _ _ _ (by assumption : s.rcd = some _)])
  all_goals (first | assumption | grind [pStatusOK_true, pAfterDel, pAfterCre, mem_stamp, grace_pos, List.mem_filter, List.mem_map, Sorted.snoc, Sorted.setAtt, Sorted.remove, Sorted.inj, mem_setAtt, mem_remove, stamp_enis, mem_erase_of, leakCand_iff, Rec.enis, PPc.inCreate, markDel_allocs, CSort, CLt, RLt, PMade, PRoll, LCandD, LCandL, LList])

set_option maxHeartbeats 4000000 in
theorem RLt.stepG {s t : St} {ev : Ev} (h : Inv3 s) (hs : PE.stepG s ev = some t) : RLt t := by
  obtain ⟨c0, c1, c2, c3, c4, c5, c6, c7⟩ := h
  revert hs
  fun_cases PE.stepG s ev <;> intro hs <;> (first | cases hs | skip)
  all_goals (try simp only [bump_some _ _ _ (by assumption : s.rcd = some _)])
  all_goals (first | assumption | grind [pStatusOK_true, pAfterDel, pAfterCre, mem_stamp, grace_pos, List.mem_filter, List.mem_map, Sorted.snoc, Sorted.setAtt, Sorted.remove, Sorted.inj, mem_setAtt, mem_remove, stamp_enis, mem_erase_of, leakCand_iff, Rec.enis, PPc.inCreate, markDel_allocs, CSort, CLt, RLt, PMade, PRoll, LCandD, LCandL, LList])

set_option maxHeartbeats 4000000 in
theorem RLt.stepL {s t : St} {ev : Ev} (h : Inv3 s) (hs : PE.stepL s ev = some t) : RLt t := by
  obtain ⟨c0, c1, c2, c3, c4, c5, c6, c7⟩ := h
  revert hs
  fun_cases PE.stepL s ev <;> intro hs <;> (first | cases hs | skip)
  all_goals (try simp only [bump_some _ _ _ (by assumption : s.rcd = some _)])
  all_goals (first | assumption | grind [pStatusOK_true, pAfterDel, pAfterCre, mem_stamp, grace_pos, List.mem_filter, List.mem_map, Sorted.snoc, Sorted.setAtt, Sorted.remove, Sorted.inj, mem_setAtt, mem_remove, stamp_enis, mem_erase_of, leakCand_iff, Rec.enis, PPc.inCreate, markDel_allocs, CSort, CLt, RLt, PMade, PRoll, LCandD, LCandL, LList])

set_option maxHeartbeats 4000000 in
theorem PMade.stepEnv {s t : St} {ev : Ev} (h : Inv3 s) (hs : PE.stepEnv s ev = some t) : PMade t := by
  obtain ⟨c0, c1, c2, c3, c4, c5, c6, c7⟩ := h
  revert hs
  fun_cases PE.stepEnv s ev <;> intro hs <;> (first | cases hs | skip)
  all_goals (try simp only [bump_some _ _ _ (by assumption : s.rcd = some _)])
  all_goals (first | assumption | grind [pStatusOK_true, pAfterDel, pAfterCre, mem_stamp, grace_pos, List.mem_filter, List.mem_map, Sorted.snoc, Sorted.setAtt, Sorted.remove, Sorted.inj, mem_setAtt, mem_remove, stamp_enis, mem_erase_of, leakCand_iff, Rec.enis, PPc.inCreate, markDel_allocs, CSort, CLt, RLt, PMade, PRoll, LCandD, LCandL, LList])

set_option maxHeartbeats 4000000 in
theorem PMade.stepP {s t : St} {ev : Ev} (h : Inv3 s) (hs : PE.stepP s ev = some t) : PMade t := by
  obtain ⟨c0, c1, c2, c3, c4, c5, c6, c7⟩ := h
  revert hs
  fun_cases PE.stepP s ev <;> intro hs <;> (first | cases hs | skip)
  all_goals (try simp only [deleteRec_some _ _ (by assumption : s.rcd = some _), bindRec, bump_some _ _ _ (by assumption : s.rcd = some _)])
  all_goals (first | assumption | grind [pStatusOK_true, pAfterDel, pAfterCre, mem_stamp, grace_pos, List.mem_filter, List.mem_map, Sorted.snoc, Sorted.setAtt, Sorted.remove, Sorted.inj, mem_setAtt, mem_remove, stamp_enis, mem_erase_of, leakCand_iff, Rec.enis, PPc.inCreate, markDel_allocs, CSort, CLt, RLt, PMade, PRoll, LCandD, LCandL, LList])

set_option maxHeartbeats 4000000 in
theorem PMade.stepE {s t : St} {ev : Ev} (h : Inv3 s) (hs : PE.stepE s ev = some t) : PMade t := by
  obtain ⟨c0, c1, c2, c3, c4, c5, c6, c7⟩ := h
  revert hs
  fun_cases PE.stepE s ev <;> intro hs <;> (first | cases hs | skip)
  all_goals (try simp only [deleteRec_some _ _ (by assumption : s.rcd = some _), bindRec, bump_some _ _ _ (by assumption : s.rcd = some _)])
  all_goals (first | assumption | grind [pStatusOK_true, pAfterDel, pAfterCre, mem_stamp, grace_pos, List.mem_filter, List.mem_map, Sorted.snoc, Sorted.setAtt, Sorted.remove, Sorted.inj, mem_setAtt, mem_remove, stamp_enis, mem_erase_of, leakCand_iff, Rec.enis, PPc.inCreate, markDel_allocs, CSort, CLt, RLt, PMade, PRoll, LCandD, LCandL, LList])

set_option maxHeartbeats 4000000 in
theorem PMade.stepG {s t : St} {ev : Ev} (h : Inv3 s) (hs : PE.stepG s ev = some t) : PMade t := by
  obtain ⟨c0, c1, c2, c3, c4, c5, c6, c7⟩ := h
  revert hs
  fun_cases PE.stepG s ev <;> intro hs <;> (first | cases hs | skip)
  all_goals (try simp only [bump_some _ _ _ (by assumption : s.rcd = some _)])
  all_goals (first | assumption | grind [pStatusOK_true, pAfterDel, pAfterCre, mem_stamp, grace_pos, List.mem_filter, List.mem_map, Sorted.snoc, Sorted.setAtt, Sorted.remove, Sorted.inj, mem_setAtt, mem_remove, stamp_enis, mem_erase_of, leakCand_iff, Rec.enis, PPc.inCreate, markDel_allocs, CSort, CLt, RLt, PMade, PRoll, LCandD, LCandL, LList])

set_option maxHeartbeats 4000000 in
theorem PMade.stepL {s t : St} {ev : Ev} (h : Inv3 s) (hs : PE.stepL s ev = some t) : PMade t := by
  obtain ⟨c0, c1, c2, c3, c4, c5, c6, c7⟩ := h
  revert hs
  fun_cases PE.stepL s ev <;> intro hs <;> (first | cases hs | skip)
  all_goals (try simp only [bump_some _ _ _ (by assumption : s.rcd = some _)])
  all_goals (first | assumption | grind [pStatusOK_true, pAfterDel, pAfterCre, mem_stamp, grace_pos, List.mem_filter, List.mem_map, Sorted.snoc, Sorted.setAtt, Sorted.remove, Sorted.inj, mem_setAtt, mem_remove, stamp_enis, mem_erase_of, leakCand_iff, Rec.enis, PPc.inCreate, markDel_allocs, CSort, CLt, RLt, PMade, PRoll, LCandD, LCandL, LList])

set_option maxHeartbeats 4000000 in
theorem PRoll.stepEnv {s t : St} {ev : Ev} (h : Inv3 s) (hs : PE.stepEnv s ev = some t) : PRoll t := by
  obtain ⟨c0, c1, c2, c3, c4, c5, c6, c7⟩ := h
  revert hs
  fun_cases PE.stepEnv s ev <;> intro hs <;> (first | cases hs | skip)
  all_goals (try simp only [bump_some _ _ _ (by assumption : s.rcd = some _)])
  all_goals (first | assumption | grind [pStatusOK_true, pAfterDel, pAfterCre, mem_stamp, grace_pos, List.mem_filter, List.mem_map, Sorted.snoc, Sorted.setAtt, Sorted.remove, Sorted.inj, mem_setAtt, mem_remove, stamp_enis, mem_erase_of, leakCand_iff, Rec.enis, PPc.inCreate, markDel_allocs, CSort, CLt, RLt, PMade, PRoll, LCandD, LCandL, LList])

set_option maxHeartbeats 4000000 in
theorem PRoll.stepP {s t : St} {ev : Ev} (h : Inv3 s) (hs : PE.stepP s ev = some t) : PRoll t := by
  obtain ⟨c0, c1, c2, c3, c4, c5, c6, c7⟩ := h
  revert hs
  fun_cases PE.stepP s ev <;> intro hs <;> (first | cases hs | skip)
  all_goals (try simp only [deleteRec_some _ _ (by assumption : s.rcd = some _), bindRec, bump_some _ _ _ (by assumption : s.rcd = some _)])
  all_goals (first | assumption | grind [pStatusOK_true, pAfterDel, pAfterCre, mem_stamp, grace_pos, List.mem_filter, List.mem_map, Sorted.snoc, Sorted.setAtt, Sorted.remove, Sorted.inj, mem_setAtt, mem_remove, stamp_enis, mem_erase_of, leakCand_iff, Rec.enis, PPc.inCreate, markDel_allocs, CSort, CLt, RLt, PMade, PRoll, LCandD, LCandL, LList])

set_option maxHeartbeats 4000000 in
theorem PRoll.stepE {s t : St} {ev : Ev} (h : Inv3 s) (hs : PE.stepE s ev = some t) : PRoll t := by
  obtain ⟨c0, c1, c2, c3, c4, c5, c6, c7⟩ := h
  revert hs
  fun_cases PE.stepE s ev <;> intro hs <;> (first | cases hs | skip)
  all_goals (try simp only [deleteRec_some _ _ (by assumption : s.rcd = some _), bindRec, bump_some _ _ _ (by assumption : s.rcd = some _)])
  all_goals (first | assumption | grind [pStatusOK_true, pAfterDel, pAfterCre, mem_stamp, grace_pos, List.mem_filter, List.mem_map, Sorted.snoc, Sorted.setAtt, Sorted.remove, Sorted.inj, mem_setAtt, mem_remove, stamp_enis, mem_erase_of, leakCand_iff, Rec.enis, PPc.inCreate, markDel_allocs, CSort, CLt, RLt, PMade, PRoll, LCandD, LCandL, LList])

set_option maxHeartbeats 4000000 in
theorem PRoll.stepG {s t : St} {ev : Ev} (h : Inv3 s) (hs : PE.stepG s ev = some t) : PRoll t := by
  obtain ⟨c0, c1, c2, c3, c4, c5, c6, c7⟩ := h
  revert hs
  fun_cases PE.stepG s ev <;> intro hs <;> (first | cases hs | skip)
  all_goals (try simp only [bump_some _ _ _ (by assumption : s.rcd = some _)])
  all_goals (first | assumption | grind [pStatusOK_true, pAfterDel, pAfterCre, mem_stamp, grace_pos, List.mem_filter, List.mem_map, Sorted.snoc, Sorted.setAtt, Sorted.remove, Sorted.inj, mem_setAtt, mem_remove, stamp_enis, mem_erase_of, leakCand_iff, Rec.enis, PPc.inCreate, markDel_allocs, CSort, CLt, RLt, PMade, PRoll, LCandD, LCandL, LList])

set_option maxHeartbeats 4000000 in
theorem PRoll.stepL {s t : St} {ev : Ev} (h : Inv3 s) (hs : PE.stepL s ev = some t) : PRoll t := by
  obtain ⟨c0, c1, c2, c3, c4, c5, c6, c7⟩ := h
  revert hs
  fun_cases PE.stepL s ev <;> intro hs <;> (first | cases hs | skip)
  all_goals (try simp only [bump_some _ _ _ (by assumption : s.rcd = some _)])
  all_goals (first | assumption | grind [pStatusOK_true, pAfterDel, pAfterCre, mem_stamp, grace_pos, List.mem_filter, List.mem_map, Sorted.snoc, Sorted.setAtt, Sorted.remove, Sorted.inj, mem_setAtt, mem_remove, stamp_enis, mem_erase_of, leakCand_iff, Rec.enis, PPc.inCreate, markDel_allocs, CSort, CLt, RLt, PMade, PRoll, LCandD, LCandL, LList])

set_option maxHeartbeats 4000000 in
theorem LCandD.stepEnv {s t : St} {ev : Ev} (h : Inv3 s) (hs : PE.stepEnv s ev = some t) : LCandD t := by
  obtain ⟨c0, c1, c2, c3, c4, c5, c6, c7⟩ := h
  revert hs
  fun_cases PE.stepEnv s ev <;> intro hs <;> (first | cases hs | skip)
  all_goals (try simp only [bump_some _ _ _ (by assumption : s.rcd = some _)])
  all_goals (first | assumption | grind [pStatusOK_true, pAfterDel, pAfterCre, mem_stamp, grace_pos, List.mem_filter, List.mem_map, Sorted.snoc, Sorted.setAtt, Sorted.remove, Sorted.inj, mem_setAtt, mem_remove, stamp_enis, mem_erase_of, leakCand_iff, Rec.enis, PPc.inCreate, markDel_allocs, CSort, CLt, RLt, PMade, PRoll, LCandD, LCandL, LList])

set_option maxHeartbeats 4000000 in
theorem LCandD.stepP {s t : St} {ev : Ev} (h : Inv3 s) (hs : PE.stepP s ev = some t) : LCandD t := by
  obtain ⟨c0, c1, c2, c3, c4, c5, c6, c7⟩ := h
  revert hs
  fun_cases PE.stepP s ev <;> intro hs <;> (first | cases hs | skip)
  all_goals (try simp only [deleteRec_some _ _ (by assumption : s.rcd = some _), bindRec, bump_some _ _ _ (by assumption : s.rcd = some _)])
  all_goals (first | assumption | grind [pStatusOK_true, pAfterDel, pAfterCre, mem_stamp, grace_pos, List.mem_filter, List.mem_map, Sorted.snoc, Sorted.setAtt, Sorted.remove, Sorted.inj, mem_setAtt, mem_remove, stamp_enis, mem_erase_of, leakCand_iff, Rec.enis, PPc.inCreate, markDel_allocs, CSort, CLt, RLt, PMade, PRoll, LCandD, LCandL, LList])

set_option maxHeartbeats 4000000 in
theorem LCandD.stepE {s t : St} {ev : Ev} (h : Inv3 s) (hs : PE.stepE s ev = some t) : LCandD t := by
  obtain ⟨c0, c1, c2, c3, c4, c5, c6, c7⟩ := h
  revert hs
  fun_cases PE.stepE s ev <;> intro hs <;> (first | cases hs | skip)
  all_goals (try simp only [deleteRec_some _ _ (by assumption : s.rcd = some _), bindRec, bump_some _ _ _ (by assumption : s.rcd = some _)])
  all_goals (first | assumption | grind [pStatusOK_true, pAfterDel, pAfterCre, mem_stamp, grace_pos, List.mem_filter, List.mem_map, Sorted.snoc, Sorted.setAtt, Sorted.remove, Sorted.inj, mem_setAtt, mem_remove, stamp_enis, mem_erase_of, leakCand_iff, Rec.enis, PPc.inCreate, markDel_allocs, CSort, CLt, RLt, PMade, PRoll, LCandD, LCandL, LList])

set_option maxHeartbeats 4000000 in
theorem LCandD.stepG {s t : St} {ev : Ev} (h : Inv3 s) (hs : PE.stepG s ev = some t) : LCandD t := by
  obtain ⟨c0, c1, c2, c3, c4, c5, c6, c7⟩ := h
  revert hs
  fun_cases PE.stepG s ev <;> intro hs <;> (first | cases hs | skip)
  all_goals (try simp only [bump_some _ _ _ (by assumption : s.rcd = some _)])
  all_goals (first | assumption | grind [pStatusOK_true, pAfterDel, pAfterCre, mem_stamp, grace_pos, List.mem_filter, List.mem_map, Sorted.snoc, Sorted.setAtt, Sorted.remove, Sorted.inj, mem_setAtt, mem_remove, stamp_enis, mem_erase_of, leakCand_iff, Rec.enis, PPc.inCreate, markDel_allocs, CSort, CLt, RLt, PMade, PRoll, LCandD, LCandL, LList])

set_option maxHeartbeats 4000000 in
theorem LCandD.stepL {s t : St} {ev : Ev} (h : Inv3 s) (hs : PE.stepL s ev = some t) : LCandD t := by
  obtain ⟨c0, c1, c2, c3, c4, c5, c6, c7⟩ := h
  revert hs
  fun_cases PE.stepL s ev <;> intro hs <;> (first | cases hs | skip)
  all_goals (try simp only [bump_some _ _ _ (by assumption : s.rcd = some _)])
  all_goals (first | assumption | grind [pStatusOK_true, pAfterDel, pAfterCre, mem_stamp, grace_pos, List.mem_filter, List.mem_map, Sorted.snoc, Sorted.setAtt, Sorted.remove, Sorted.inj, mem_setAtt, mem_remove, stamp_enis, mem_erase_of, leakCand_iff, Rec.enis, PPc.inCreate, markDel_allocs, CSort, CLt, RLt, PMade, PRoll, LCandD, LCandL, LList])

set_option maxHeartbeats 4000000 in
theorem LCandL.stepEnv {s t : St} {ev : Ev} (h : Inv3 s) (hs : PE.stepEnv s ev = some t) : LCandL t := by
  obtain ⟨c0, c1, c2, c3, c4, c5, c6, c7⟩ := h
  revert hs
  fun_cases PE.stepEnv s ev <;> intro hs <;> (first | cases hs | skip)
  all_goals (try simp only [bump_some _ _ _ (by assumption : s.rcd = some _)])
  all_goals (first | assumption | grind [pStatusOK_true, pAfterDel, pAfterCre, mem_stamp, grace_pos, List.mem_filter, List.mem_map, Sorted.snoc, Sorted.setAtt, Sorted.remove, Sorted.inj, mem_setAtt, mem_remove, stamp_enis, mem_erase_of, leakCand_iff, Rec.enis, PPc.inCreate, markDel_allocs, CSort, CLt, RLt, PMade, PRoll, LCandD, LCandL, LList])

set_option maxHeartbeats 4000000 in
theorem LCandL.stepP {s t : St} {ev : Ev} (h : Inv3 s) (hs : PE.stepP s ev = some t) : LCandL t := by
  obtain ⟨c0, c1, c2, c3, c4, c5, c6, c7⟩ := h
  revert hs
  fun_cases PE.stepP s ev <;> intro hs <;> (first | cases hs | skip)
  all_goals (try simp only [deleteRec_some _ _ (by assumption : s.rcd = some _), bindRec, bump_some _ _ _ (by assumption : s.rcd = some _)])
  all_goals (first | assumption | grind [pStatusOK_true, pAfterDel, pAfterCre, mem_stamp, grace_pos, List.mem_filter, List.mem_map, Sorted.snoc, Sorted.setAtt, Sorted.remove, Sorted.inj, mem_setAtt, mem_remove, stamp_enis, mem_erase_of, leakCand_iff, Rec.enis, PPc.inCreate, markDel_allocs, CSort, CLt, RLt, PMade, PRoll, LCandD, LCandL, LList])

set_option maxHeartbeats 4000000 in
theorem LCandL.stepE {s t : St} {ev : Ev} (h : Inv3 s) (hs : PE.stepE s ev = some t) : LCandL t := by
  obtain ⟨c0, c1, c2, c3, c4, c5, c6, c7⟩ := h
  revert hs
  fun_cases PE.stepE s ev <;> intro hs <;> (first | cases hs | skip)
  all_goals (try simp only [deleteRec_some _ _ (by assumption : s.rcd = some _), bindRec, bump_some _ _ _ (by assumption : s.rcd = some _)])
  all_goals (first | assumption | grind [pStatusOK_true, pAfterDel, pAfterCre, mem_stamp, grace_pos, List.mem_filter, List.mem_map, Sorted.snoc, Sorted.setAtt, Sorted.remove, Sorted.inj, mem_setAtt, mem_remove, stamp_enis, mem_erase_of, leakCand_iff, Rec.enis, PPc.inCreate, markDel_allocs, CSort, CLt, RLt, PMade, PRoll, LCandD, LCandL, LList])

set_option maxHeartbeats 4000000 in
theorem LCandL.stepG {s t : St} {ev : Ev} (h : Inv3 s) (hs : PE.stepG s ev = some t) : LCandL t := by
  obtain ⟨c0, c1, c2, c3, c4, c5, c6, c7⟩ := h
  revert hs
  fun_cases PE.stepG s ev <;> intro hs <;> (first | cases hs | skip)
  all_goals (try simp only [bump_some _ _ _ (by assumption : s.rcd = some _)])
  all_goals (first | assumption | grind [pStatusOK_true, pAfterDel, pAfterCre, mem_stamp, grace_pos, List.mem_filter, List.mem_map, Sorted.snoc, Sorted.setAtt, Sorted.remove, Sorted.inj, mem_setAtt, mem_remove, stamp_enis, mem_erase_of, leakCand_iff, Rec.enis, PPc.inCreate, markDel_allocs, CSort, CLt, RLt, PMade, PRoll, LCandD, LCandL, LList])

set_option maxHeartbeats 4000000 in
theorem LCandL.stepL {s t : St} {ev : Ev} (h : Inv3 s) (hs : PE.stepL s ev = some t) : LCandL t := by
  obtain ⟨c0, c1, c2, c3, c4, c5, c6, c7⟩ := h
  revert hs
  fun_cases PE.stepL s ev <;> intro hs <;> (first | cases hs | skip)
  all_goals (try simp only [bump_some _ _ _ (by assumption : s.rcd = some _)])
  all_goals (first | assumption | grind [pStatusOK_true, pAfterDel, pAfterCre, mem_stamp, grace_pos, List.mem_filter, List.mem_map, Sorted.snoc, Sorted.setAtt, Sorted.remove, Sorted.inj, mem_setAtt, mem_remove, stamp_enis, mem_erase_of, leakCand_iff, Rec.enis, PPc.inCreate, markDel_allocs, CSort, CLt, RLt, PMade, PRoll, LCandD, LCandL, LList])

set_option maxHeartbeats 4000000 in
theorem LList.stepEnv {s t : St} {ev : Ev} (h : Inv3 s) (hs : PE.stepEnv s ev = some t) : LList t := by
  obtain ⟨c0, c1, c2, c3, c4, c5, c6, c7⟩ := h
  revert hs
  fun_cases PE.stepEnv s ev <;> intro hs <;> (first | cases hs | skip)
  all_goals (try simp only [bump_some _ _ _ (by assumption : s.rcd = some _)])
  all_goals (first | assumption | grind [pStatusOK_true, pAfterDel, pAfterCre, mem_stamp, grace_pos, List.mem_filter, List.mem_map, Sorted.snoc, Sorted.setAtt, Sorted.remove, Sorted.inj, mem_setAtt, mem_remove, stamp_enis, mem_erase_of, leakCand_iff, Rec.enis, PPc.inCreate, markDel_allocs, CSort, CLt, RLt, PMade, PRoll, LCandD, LCandL, LList])

set_option maxHeartbeats 4000000 in
theorem LList.stepP {s t : St} {ev : Ev} (h : Inv3 s) (hs : PE.stepP s ev = some t) : LList t := by
  obtain ⟨c0, c1, c2, c3, c4, c5, c6, c7⟩ := h
  revert hs
  fun_cases PE.stepP s ev <;> intro hs <;> (first | cases hs | skip)
  all_goals (try simp only [deleteRec_some _ _ (by assumption : s.rcd = some _), bindRec, bump_some _ _ _ (by assumption : s.rcd = some _)])
  all_goals (first | assumption | grind [pStatusOK_true, pAfterDel, pAfterCre, mem_stamp, grace_pos, List.mem_filter, List.mem_map, Sorted.snoc, Sorted.setAtt, Sorted.remove, Sorted.inj, mem_setAtt, mem_remove, stamp_enis, mem_erase_of, leakCand_iff, Rec.enis, PPc.inCreate, markDel_allocs, CSort, CLt, RLt, PMade, PRoll, LCandD, LCandL, LList])

set_option maxHeartbeats 4000000 in
theorem LList.stepE {s t : St} {ev : Ev} (h : Inv3 s) (hs : PE.stepE s ev = some t) : LList t := by
  obtain ⟨c0, c1, c2, c3, c4, c5, c6, c7⟩ := h
  revert hs
  fun_cases PE.stepE s ev <;> intro hs <;> (first | cases hs | skip)
  all_goals (try simp only [deleteRec_some _ _ (by assumption : s.rcd = some _), bindRec, bump_some _ _ _ (by assumption : s.rcd = some _)])
  all_goals (first | assumption | grind [pStatusOK_true, pAfterDel, pAfterCre, mem_stamp, grace_pos, List.mem_filter, List.mem_map, Sorted.snoc, Sorted.setAtt, Sorted.remove, Sorted.inj, mem_setAtt, mem_remove, stamp_enis, mem_erase_of, leakCand_iff, Rec.enis, PPc.inCreate, markDel_allocs, CSort, CLt, RLt, PMade, PRoll, LCandD, LCandL, LList])

set_option maxHeartbeats 4000000 in
theorem LList.stepG {s t : St} {ev : Ev} (h : Inv3 s) (hs : PE.stepG s ev = some t) : LList t := by
  obtain ⟨c0, c1, c2, c3, c4, c5, c6, c7⟩ := h
  revert hs
  fun_cases PE.stepG s ev <;> intro hs <;> (first | cases hs | skip)
  all_goals (try simp only [bump_some _ _ _ (by assumption : s.rcd = some _)])
  all_goals (first | assumption | grind [pStatusOK_true, pAfterDel, pAfterCre, mem_stamp, grace_pos, List.mem_filter, List.mem_map, Sorted.snoc, Sorted.setAtt, Sorted.remove, Sorted.inj, mem_setAtt, mem_remove, stamp_enis, mem_erase_of, leakCand_iff, Rec.enis, PPc.inCreate, markDel_allocs, CSort, CLt, RLt, PMade, PRoll, LCandD, LCandL, LList])

set_option maxHeartbeats 4000000 in
theorem LList.stepL {s t : St} {ev : Ev} (h : Inv3 s) (hs : PE.stepL s ev = some t) : LList t := by
  obtain ⟨c0, c1, c2, c3, c4, c5, c6, c7⟩ := h
  revert hs
  fun_cases PE.stepL s ev <;> intro hs <;> (first | cases hs | skip)
  all_goals (try simp only [bump_some _ _ _ (by assumption : s.rcd = some _)])
  all_goals (first | assumption | grind [pStatusOK_true, pAfterDel, pAfterCre, mem_stamp, grace_pos, List.mem_filter, List.mem_map, Sorted.snoc, Sorted.setAtt, Sorted.remove, Sorted.inj, mem_setAtt, mem_remove, stamp_enis, mem_erase_of, leakCand_iff, Rec.enis, PPc.inCreate, markDel_allocs, CSort, CLt, RLt, PMade, PRoll, LCandD, LCandL, LList])

theorem Inv3.stepEnv {s t : St} {ev : Ev} (h : Inv3 s) (hs : PE.stepEnv s ev = some t) : Inv3 t :=
  ⟨CSort.stepEnv h hs, CLt.stepEnv h hs, RLt.stepEnv h hs, PMade.stepEnv h hs, PRoll.stepEnv h hs, LCandD.stepEnv h hs, LCandL.stepEnv h hs, LList.stepEnv h hs⟩

theorem Inv3.stepP {s t : St} {ev : Ev} (h : Inv3 s) (hs : PE.stepP s ev = some t) : Inv3 t :=
  ⟨CSort.stepP h hs, CLt.stepP h hs, RLt.stepP h hs, PMade.stepP h hs, PRoll.stepP h hs, LCandD.stepP h hs, LCandL.stepP h hs, LList.stepP h hs⟩

theorem Inv3.stepE {s t : St} {ev : Ev} (h : Inv3 s) (hs : PE.stepE s ev = some t) : Inv3 t :=
  ⟨CSort.stepE h hs, CLt.stepE h hs, RLt.stepE h hs, PMade.stepE h hs, PRoll.stepE h hs, LCandD.stepE h hs, LCandL.stepE h hs, LList.stepE h hs⟩

theorem Inv3.stepG {s t : St} {ev : Ev} (h : Inv3 s) (hs : PE.stepG s ev = some t) : Inv3 t :=
  ⟨CSort.stepG h hs, CLt.stepG h hs, RLt.stepG h hs, PMade.stepG h hs, PRoll.stepG h hs, LCandD.stepG h hs, LCandL.stepG h hs, LList.stepG h hs⟩

theorem Inv3.stepL {s t : St} {ev : Ev} (h : Inv3 s) (hs : PE.stepL s ev = some t) : Inv3 t :=
  ⟨CSort.stepL h hs, CLt.stepL h hs, RLt.stepL h hs, PMade.stepL h hs, PRoll.stepL h hs, LCandD.stepL h hs, LCandL.stepL h hs, LList.stepL h hs⟩

theorem Inv3.step {s t : St} {ev : Ev} (h : Inv3 s) (hs : PE.step s ev = some t) : Inv3 t := by
  cases ev <;> simp only [PE.step] at hs <;>
    first | exact h.stepEnv hs | exact h.stepP hs | exact h.stepE hs | exact h.stepG hs | exact h.stepL hs | exact (stepD_eq hs) ▸ h

end Terway.PE

