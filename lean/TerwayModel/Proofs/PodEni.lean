import TerwayModel.Model.PodEni
/-
Invariants of the PodENI lifecycle model, proved for every accepted event (hence for every history).
-/
namespace Terway.PE

/-! ### small facts about the helpers -/

@[simp] theorem bump_none (s : St) (f : Rec → Rec) (h : s.rcd = none) : s.bump f = s := by
  simp [St.bump, h]

theorem bump_some (s : St) (f : Rec → Rec) (c : Rec) (h : s.rcd = some c) :
    s.bump f = { s with rcd := some { f c with ver := s.nextVer }, nextVer := s.nextVer + 1 } := by
  simp [St.bump, h]

theorem podMatches_live {p : Option Pod} {u : Nat} {n : Bool} (h : podMatches p (.live u n) = true) :
    ∃ q, p = some q ∧ q.uid = u ∧ q.exited = false ∧ q.needs = n := by
  cases p with
  | none => simp [podMatches] at h
  | some q => exact ⟨q, rfl, by simpa [podMatches, and_assoc] using h⟩

theorem podMatches_absent {p : Option Pod} (h : podMatches p .absent = true) : p = none := by
  cases p <;> simp_all [podMatches]

theorem podMatches_exited {p : Option Pod} (h : podMatches p .exited = true) : ∃ q, p = some q ∧ q.exited = true := by
  cases p <;> simp_all [podMatches]

theorem podMatches_term {p : Option Pod} (h : podMatches p .term = true) : ∃ q, p = some q ∧ q.exited = false := by
  cases p <;> simp_all [podMatches]

theorem seenMatches_absent {p : Option Pod} (h : seenMatches p .absent = true) : p = none := by
  cases p <;> simp_all [seenMatches]

theorem seenMatches_present {p : Option Pod} {u : Nat} {ex n : Bool} (h : seenMatches p (.present u ex n) = true) :
    ∃ q, p = some q ∧ q.uid = u ∧ q.exited = ex ∧ q.needs = n := by
  cases p with
  | none => simp [seenMatches] at h
  | some q => exact ⟨q, rfl, by simpa [seenMatches, and_assoc] using h⟩

@[simp] theorem markDel_uid (r : Rec) (v : Nat) : (markDel r v).uid = r.uid := by unfold markDel; split <;> rfl
@[simp] theorem markDel_phase (r : Rec) (v : Nat) : (markDel r v).phase = r.phase := by unfold markDel; split <;> rfl
@[simp] theorem markDel_allocs (r : Rec) (v : Nat) : (markDel r v).allocs = r.allocs := by unfold markDel; split <;> rfl
@[simp] theorem markDel_del (r : Rec) (v : Nat) : (markDel r v).del = true := by unfold markDel; split <;> simp_all
theorem markDel_ver (r : Rec) (v : Nat) : (markDel r v).ver = if r.del then r.ver else v := by
  unfold markDel; split <;> simp_all
theorem markDel_of_del (r : Rec) (v : Nat) (h : r.del = true) : markDel r v = r := by simp [markDel, h]

theorem deleteRec_some (s : St) (r : Rec) (h : s.rcd = some r) :
    deleteRec s = { s with rcd := some (markDel r s.nextVer), nextVer := if r.del then s.nextVer else s.nextVer + 1 } := by
  simp [deleteRec, h]

theorem pStatusOK_iff {p : PPc} {ver : Nat} {ph : Phase} (h : pStatusOK p ver ph = true) :
    p = .upd ver ph ∨ ∃ u, p = .reconf u ver u ∧ ph = .binding := by
  unfold pStatusOK at h
  split at h
  · simp only [Bool.and_eq_true, beq_iff_eq] at h; exact .inl (by rw [h.1, h.2])
  · simp only [Bool.and_eq_true, beq_iff_eq] at h
    obtain ⟨⟨h1, h2⟩, h3⟩ := h
    exact .inr ⟨_, by rw [h1, h3], h2⟩
  · simp at h

theorem pStatusOK_true (p : PPc) (ver : Nat) (ph : Phase) :
    pStatusOK p ver ph = true ↔ (p = .upd ver ph ∨ ∃ u, p = .reconf u ver u ∧ ph = .binding) := by
  constructor
  · exact pStatusOK_iff
  · rintro (rfl | ⟨u, rfl, rfl⟩) <;> simp [pStatusOK]

/-- a pod instance `u` that is not running: no pod, another instance, or finished -/
def NotRunning (s : St) (u : Nat) : Prop := ∀ q, s.pod = some q → q.uid = u → q.exited = true

/-- a snapshot an actor holds: its version was issued, and if the record still has that version it is that snapshot -/
def SnapOK (s : St) (r : Rec) : Prop :=
  r.ver < s.nextVer ∧ ∀ c, s.rcd = some c → c.ver = r.ver → c = r

/-- counters, versions, snapshots -/
structure Inv1 (s : St) : Prop where
  podLt : ∀ q, s.pod = some q → q.uid + 1 = s.nextUid
  recUid : ∀ c, s.rcd = some c → c.uid < s.nextUid
  recVer : ∀ c, s.rcd = some c → c.ver < s.nextVer
  pVerU : ∀ v ph, s.p = .upd v ph → v < s.nextVer
  pVerR : ∀ u v ru, s.p = .reconf u v ru → v < s.nextVer
  pUidC : ∀ u, s.p = .cre u → u < s.nextUid ∧ ∀ q, s.pod = some q → q.uid = u → q.needs = true
  pUidR : ∀ u v ru, s.p = .reconf u v ru → u < s.nextUid ∧ ∀ q, s.pod = some q → q.uid = u → q.needs = true
  pUidM : ∀ u m f, s.p = .creating u m f → u < s.nextUid ∧ ∀ q, s.pod = some q → q.uid = u → q.needs = true
  eSnapD : ∀ r tear, s.e = .detach r tear → SnapOK s r
  eSnapA : ∀ r fn i f, s.e = .attach r fn i f → SnapOK s r
  gSnapL : ∀ r, s.g = .listed r → SnapOK s r
  gSnapS : ∀ r p ne, s.g = .seen r p ne → SnapOK s r

theorem Inv1.init : Inv1 {} := by
  constructor <;> simp

/-- a snapshot stays valid when the record is untouched and versions only grow -/
theorem SnapOK.mono {s t : St} {r : Rec} (h : SnapOK s r) (hr : t.rcd = s.rcd) (hv : s.nextVer ≤ t.nextVer) : SnapOK t r :=
  ⟨Nat.lt_of_lt_of_le h.1 hv, fun c hc => h.2 c (hr ▸ hc)⟩

/-- … and when the record is rewritten under a fresh version -/
theorem SnapOK.fresh {s t : St} {r : Rec} (h : SnapOK s r) (hv : s.nextVer < t.nextVer)
    (hr : ∀ c, t.rcd = some c → c.ver = s.nextVer) : SnapOK t r :=
  ⟨Nat.lt_trans h.1 hv, fun c hc he => by have := hr c hc; have := h.1; omega⟩



set_option maxHeartbeats 4000000 in
theorem Inv1.stepG {s t : St} {ev : Ev} (h : Inv1 s) (hs : PE.stepG s ev = some t) : Inv1 t := by
  obtain ⟨h1, h2, h3, h4, h4b, h5, h5b, h5c, h6, h6b, h7, h7b⟩ := h
  revert hs
  fun_cases PE.stepG s ev <;> intro hs <;> (first | cases hs | skip)
  all_goals (try simp +zeta only [bump_some _ _ _ (by assumption : s.rcd = some _)])
  all_goals constructor <;> (try dsimp only)
  all_goals (first | assumption | grind [SnapOK, pStatusOK_true, markDel_uid, markDel_phase, markDel_allocs, markDel_del, markDel_ver, markDel_of_del])

set_option maxHeartbeats 4000000 in
theorem Inv1.stepL {s t : St} {ev : Ev} (h : Inv1 s) (hs : PE.stepL s ev = some t) : Inv1 t := by
  obtain ⟨h1, h2, h3, h4, h4b, h5, h5b, h5c, h6, h6b, h7, h7b⟩ := h
  revert hs
  fun_cases PE.stepL s ev <;> intro hs <;> (first | cases hs | skip)
  all_goals constructor <;> (try dsimp only)
  all_goals (first | assumption | grind [SnapOK, pStatusOK_true, markDel_uid, markDel_phase, markDel_allocs, markDel_del, markDel_ver, markDel_of_del])

set_option maxHeartbeats 4000000 in
theorem Inv1.stepEnv {s t : St} {ev : Ev} (h : Inv1 s) (hs : PE.stepEnv s ev = some t) : Inv1 t := by
  obtain ⟨h1, h2, h3, h4, h4b, h5, h5b, h5c, h6, h6b, h7, h7b⟩ := h
  revert hs
  fun_cases PE.stepEnv s ev <;> intro hs <;> (first | cases hs | skip)
  all_goals constructor <;> (try dsimp only)
  all_goals (first | assumption | grind [SnapOK, pStatusOK_true, markDel_uid, markDel_phase, markDel_allocs, markDel_del, markDel_ver, markDel_of_del])

set_option maxHeartbeats 4000000 in
theorem Inv1.stepE {s t : St} {ev : Ev} (h : Inv1 s) (hs : PE.stepE s ev = some t) : Inv1 t := by
  obtain ⟨h1, h2, h3, h4, h4b, h5, h5b, h5c, h6, h6b, h7, h7b⟩ := h
  revert hs
  fun_cases PE.stepE s ev <;> intro hs <;> (first | cases hs | skip)
  all_goals (try simp only [deleteRec_some _ _ (by assumption : s.rcd = some _), bindRec, bump_some _ _ _ (by assumption : s.rcd = some _)])
  all_goals constructor <;> (try dsimp only)
  all_goals (first | assumption | grind [SnapOK, pStatusOK_true, markDel_uid, markDel_phase, markDel_allocs, markDel_del, markDel_ver, markDel_of_del])

set_option maxHeartbeats 4000000 in
theorem Inv1.stepP {s t : St} {ev : Ev} (h : Inv1 s) (hs : PE.stepP s ev = some t) : Inv1 t := by
  obtain ⟨h1, h2, h3, h4, h4b, h5, h5b, h5c, h6, h6b, h7, h7b⟩ := h
  revert hs
  fun_cases PE.stepP s ev <;> intro hs <;> (first | cases hs | skip)
  all_goals (try simp only [deleteRec_some _ _ (by assumption : s.rcd = some _), bump_some _ _ _ (by assumption : s.rcd = some _)])
  all_goals constructor <;> (try dsimp only)
  all_goals (first | assumption | grind [SnapOK, pStatusOK_true, markDel_uid, markDel_phase, markDel_allocs, markDel_del, markDel_ver, markDel_of_del, pAfterDel, pAfterCre, podMatches_live, podMatches_absent, podMatches_exited, podMatches_term])

theorem stepD_eq {s t : St} {ev : Ev} (hs : PE.stepD s ev = some t) : t = s := by
  unfold PE.stepD at hs
  split at hs
  · split at hs
    · exact (Option.some.inj hs).symm
    · cases hs
  · cases hs

theorem Inv1.step {s t : St} {ev : Ev} (h : Inv1 s) (hs : PE.step s ev = some t) : Inv1 t := by
  cases ev <;> simp only [PE.step] at hs <;>
    first | exact h.stepEnv hs | exact h.stepP hs | exact h.stepE hs | exact h.stepG hs | exact h.stepL hs | exact (stepD_eq hs) ▸ h

theorem Inv1.run {s t : St} {evs : List Ev} (h : Inv1 s) (hs : PE.run s evs = some t) : Inv1 t := by
  induction evs generalizing s with
  | nil => simp [PE.run] at hs; exact hs ▸ h
  | cons ev rest ih =>
    simp only [PE.run] at hs
    split at hs
    · exact ih (h.step ‹_›) hs
    · simp at hs

end Terway.PE
