import TerwayModel.Model.Pool
/-!
Invariants of the pool model (used by Props/C01, C06, C07).
-/
namespace Terway.Pool

/-! ### entry-wise maps -/

/-- a transformation of pool entries that keeps the address and the primary flag -/
def KeepsKey (h : IP → IP) : Prop := ∀ a, (h a).ip = a.ip ∧ (h a).primary = a.primary

theorem map_ips {h : IP → IP} (hk : KeepsKey h) (l : List IP) : (l.map h).map (·.ip) = l.map (·.ip) := by
  rw [List.map_map]
  apply List.map_congr_left
  intro a _
  exact (hk a).1

theorem fam_map {h : IP → IP} (hk : KeepsKey h) (six : Bool) (l : List IP) : fam six (l.map h) = (fam six l).map h := by
  unfold fam
  rw [List.filter_map]
  congr 1
  apply List.filter_congr
  intro a _
  simp [Function.comp, IP.v6, (hk a).1]

theorem keeps_setOwner (ips : List Nat) (o : Option String) :
    KeepsKey fun a => if a.ip ∈ ips then { a with owner := o } else a := by
  intro a; by_cases c : a.ip ∈ ips <;> simp [c]

theorem keeps_release (pod : String) (ips : List Nat) :
    KeepsKey fun a => if a.ip ∈ ips ∧ a.owner = some pod then { a with owner := none } else a := by
  intro a; by_cases c : a.ip ∈ ips ∧ a.owner = some pod <;> simp [c]

theorem keeps_dispose (ips : List Nat) :
    KeepsKey fun a => if a.ip ∈ ips ∧ (!a.primary) = true then { a with st := .deleting } else a := by
  intro a
  show (if a.ip ∈ ips ∧ (!a.primary) = true then ({ a with st := .deleting } : IP) else a).ip = a.ip ∧
       (if a.ip ∈ ips ∧ (!a.primary) = true then ({ a with st := .deleting } : IP) else a).primary = a.primary
  split <;> exact ⟨rfl, rfl⟩

theorem keeps_sync (remote : List Nat) :
    KeepsKey fun a => if a.st = .valid ∧ a.ip ∉ remote then { a with st := .invalid } else a := by
  intro a; by_cases c : a.st = .valid ∧ a.ip ∉ remote <;> simp [c]

/-! ### per-slot invariants -/

/-- an address has one entry -/
def Keys (l : List IP) : Prop := (l.map (·.ip)).Nodup

/-- an address marked for unassignment is held by nobody and is not the primary one -/
def DelOK (l : List IP) : Prop := ∀ a ∈ l, a.st = .deleting → a.owner = none ∧ a.primary = false

theorem Keys.eq {l : List IP} (h : Keys l) {a b : IP} (ha : a ∈ l) (hb : b ∈ l) (e : a.ip = b.ip) : a = b := by
  unfold Keys at h
  induction l with
  | nil => cases ha
  | cons x xs ih =>
    simp only [List.map_cons, List.nodup_cons, List.mem_map, not_exists, not_and] at h
    rcases List.mem_cons.mp ha with rfl | ha'
    · rcases List.mem_cons.mp hb with rfl | hb'
      · rfl
      · exact absurd e.symm (h.1 b hb')
    · rcases List.mem_cons.mp hb with rfl | hb'
      · exact absurd e (h.1 a ha')
      · exact ih h.2 ha' hb'

theorem Keys.map {l : List IP} (h : Keys l) {f : IP → IP} (hk : KeepsKey f) : Keys (l.map f) := by
  unfold Keys; rw [map_ips hk]; exact h

theorem Keys.filter {l : List IP} (h : Keys l) (q : IP → Bool) : Keys (l.filter q) := by
  unfold Keys at *
  exact (List.filter_sublist.map _).nodup h

theorem newIPs_ips (ips : List Nat) (pr : Option Nat) (st : IPSt) : (newIPs ips pr st).map (·.ip) = ips := by
  unfold newIPs
  rw [List.map_map]
  conv => rhs; rw [← List.map_id ips]
  apply List.map_congr_left
  intro a _
  rfl

/-- putting addresses the interface does not have yet -/
theorem putIPs_fresh {l : List IP} {ips : List Nat} {pr : Option Nat} {st : IPSt}
    (hf : ∀ ip ∈ ips, ∀ a ∈ l, a.ip ≠ ip) : putIPs l (newIPs ips pr st) = l ++ newIPs ips pr st := by
  unfold putIPs
  congr 1
  apply List.filter_eq_self.mpr
  intro a ha
  simp only [Bool.not_eq_true', List.any_eq_false, beq_iff_eq]
  intro b hb
  simp only [newIPs, List.mem_map] at hb
  obtain ⟨i, hi, rfl⟩ := hb
  simp only
  exact fun e => hf i hi a ha e.symm

theorem Keys.append_new {l : List IP} (h : Keys l) {ips : List Nat} {pr : Option Nat} {st : IPSt}
    (hn : ips.Nodup) (hf : ∀ ip ∈ ips, ∀ a ∈ l, a.ip ≠ ip) : Keys (l ++ newIPs ips pr st) := by
  unfold Keys at *
  rw [List.map_append, newIPs_ips]
  apply List.nodup_append.mpr
  refine ⟨h, hn, ?_⟩
  intro x hx y hy
  simp only [List.mem_map] at hx
  obtain ⟨a, ha, rfl⟩ := hx
  exact fun e => hf y hy a ha e

theorem DelOK.map {l : List IP} (h : DelOK l) {f : IP → IP}
    (hf : ∀ a ∈ l, (f a).st = .deleting → (f a).owner = none ∧ (f a).primary = false) : DelOK (l.map f) := by
  intro b hb hs
  simp only [List.mem_map] at hb
  obtain ⟨a, ha, rfl⟩ := hb
  exact hf a ha hs

theorem DelOK.filter {l : List IP} (h : DelOK l) (q : IP → Bool) : DelOK (l.filter q) :=
  fun a ha hs => h a (List.mem_filter.mp ha).1 hs

theorem DelOK.append {l m : List IP} (h : DelOK l) (g : DelOK m) : DelOK (l ++ m) := by
  intro a ha hs
  rcases List.mem_append.mp ha with c | c
  · exact h a c hs
  · exact g a c hs

theorem DelOK.newIPs (ips : List Nat) (pr : Option Nat) (st : IPSt) (hp : st = .deleting → pr = none) :
    DelOK (newIPs ips pr st) := by
  intro a ha hs
  simp only [Pool.newIPs, List.mem_map] at ha
  obtain ⟨i, _, rfl⟩ := ha
  simp only at hs
  simp [hp hs]

end Terway.Pool

namespace Terway.Pool

/-! ### the pool invariant -/

structure SlotOK (c : Cfg) (s : Slot) : Prop where
  keys : Keys s.ips
  del : DelOK s.ips
  /-- a slot without ENI tracks nothing -/
  empty : s.eni = none → s.ips = []
  /-- what is tracked plus what has been asked for fits the per-ENI limit -/
  cap4 : (fam false s.ips).length + s.plan4 ≤ c.cap
  cap6 : (fam true s.ips).length + s.plan6 ≤ c.cap

theorem Pool.slot_eq (p : Pool) (i : Nat) : p.slot i = slotAt p.slots i := rfl

structure PInv (c : Cfg) (l : List Slot) (cm : List Pending) : Prop where
  slots : ∀ s ∈ l, SlotOK c s
  /-- the addresses of a reply on its way are bound to the pod it goes to -/
  commits : ∀ x ∈ cm, ∀ ip ∈ x.pick, ∃ a ∈ (slotAt l x.slot).ips, a.ip = ip ∧ a.owner = some x.pod
  /-- at most one reply per pod is on its way -/
  onePer : ∀ x ∈ cm, ∀ y ∈ cm, x.pod = y.pod → x = y

theorem SlotOK.emptySlot (c : Cfg) : SlotOK c Slot.empty :=
  ⟨by simp [Slot.empty, Keys], by intro a ha; simp [Slot.empty] at ha, fun _ => rfl, by simp [Slot.empty, fam], by simp [Slot.empty, fam]⟩

theorem slotAt_updateAt_same {l : List Slot} {i : Nat} (f : Slot → Slot) (h : i < l.length) :
    slotAt (updateAt l i f) i = f (slotAt l i) := by
  induction l generalizing i with
  | nil => simp at h
  | cons s rest ih =>
    cases i with
    | zero => simp [updateAt, slotAt]
    | succ n =>
      have := ih (i := n) (by simpa using h)
      simpa [updateAt, slotAt] using this

theorem slotAt_updateAt_other {l : List Slot} {i j : Nat} (f : Slot → Slot) (h : j ≠ i) :
    slotAt (updateAt l i f) j = slotAt l j := by
  revert i j
  induction l with
  | nil => intro i j _; simp [updateAt]
  | cons s rest ih =>
    intro i j h
    cases i with
    | zero =>
      cases j with
      | zero => exact absurd rfl h
      | succ m => simp [updateAt, slotAt]
    | succ n =>
      cases j with
      | zero => simp [updateAt, slotAt]
      | succ m =>
        have := @ih n m (by intro e; exact h (by rw [e]))
        simpa [updateAt, slotAt] using this

theorem updateAt_ge {l : List Slot} {i : Nat} (f : Slot → Slot) (h : l.length ≤ i) : updateAt l i f = l := by
  induction l generalizing i with
  | nil => simp [updateAt]
  | cons s rest ih =>
    cases i with
    | zero => simp at h
    | succ n => simp [updateAt, ih (i := n) (by simpa using h)]

theorem mem_updateAt {l : List Slot} {i : Nat} {f : Slot → Slot} {s : Slot} (h : s ∈ updateAt l i f) :
    s ∈ l ∨ (i < l.length ∧ s = f (slotAt l i)) := by
  induction l generalizing i with
  | nil => simp [updateAt] at h
  | cons x rest ih =>
    cases i with
    | zero =>
      simp only [updateAt, List.mem_cons] at h
      rcases h with rfl | h
      · exact Or.inr ⟨by simp, by simp [slotAt]⟩
      · exact Or.inl (List.mem_cons_of_mem _ h)
    | succ n =>
      simp only [updateAt, List.mem_cons] at h
      rcases h with rfl | h
      · exact Or.inl (by simp)
      · rcases ih h with h1 | ⟨h1, h2⟩
        · exact Or.inl (List.mem_cons_of_mem _ h1)
        · exact Or.inr ⟨by simpa using h1, by simpa [slotAt] using h2⟩

theorem slotAt_mem_or_empty (l : List Slot) (i : Nat) : slotAt l i ∈ l ∨ (l.length ≤ i ∧ slotAt l i = Slot.empty) := by
  unfold slotAt
  by_cases h : i < l.length
  · left; simp [List.getElem?_eq_getElem h]
  · right; exact ⟨by omega, by simp [List.getElem?_eq_none (by omega : l.length ≤ i)]⟩

theorem PInv.slotOK {c : Cfg} {l : List Slot} {cm : List Pending} (h : PInv c l cm) (i : Nat) : SlotOK c (slotAt l i) := by
  rcases slotAt_mem_or_empty l i with hm | ⟨_, he⟩
  · exact h.slots _ hm
  · rw [he]; exact SlotOK.emptySlot c

/-- the work-horse: updating one slot keeps the invariant when the new slot is well-formed and every entry
    a reply on its way relies on keeps its owner -/
theorem PInv.upd {c : Cfg} {l : List Slot} {cm : List Pending} (h : PInv c l cm) (i : Nat) (f : Slot → Slot)
    (hok : SlotOK c (f (slotAt l i)))
    (hown : ∀ x ∈ cm, x.slot = i → ∀ a ∈ (slotAt l i).ips, a.ip ∈ x.pick → a.owner = some x.pod →
      ∃ a' ∈ (f (slotAt l i)).ips, a'.ip = a.ip ∧ a'.owner = some x.pod) :
    PInv c (updateAt l i f) cm := by
  refine ⟨?_, ?_, h.onePer⟩
  · intro s hs
    rcases mem_updateAt hs with h1 | ⟨_, h2⟩
    · exact h.slots s h1
    · rw [h2]; exact hok
  · intro x hx ip hip
    obtain ⟨a, ha, e1, e2⟩ := h.commits x hx ip hip
    by_cases hs : x.slot = i
    · by_cases hi : i < l.length
      · rw [hs, slotAt_updateAt_same f hi]
        rw [hs] at ha
        obtain ⟨a', ha', f1, f2⟩ := hown x hx hs a ha (e1 ▸ hip) e2
        exact ⟨a', ha', f1.trans e1, f2⟩
      · rw [updateAt_ge f (by omega)]
        exact ⟨a, ha, e1, e2⟩
    · rw [slotAt_updateAt_other f hs]
      exact ⟨a, ha, e1, e2⟩

end Terway.Pool

namespace Terway.Pool

/-! ### operations that only touch the queues -/

/-- same tracked addresses, ENI and outstanding plan -/
def SameCore (s s' : Slot) : Prop := s'.ips = s.ips ∧ s'.eni = s.eni ∧ s'.plan4 = s.plan4 ∧ s'.plan6 = s.plan6

theorem SameCore.refl (s : Slot) : SameCore s s := ⟨rfl, rfl, rfl, rfl⟩
theorem SameCore.trans {a b c : Slot} (h1 : SameCore a b) (h2 : SameCore b c) : SameCore a c :=
  ⟨h2.1.trans h1.1, h2.2.1.trans h1.2.1, h2.2.2.1.trans h1.2.2.1, h2.2.2.2.trans h1.2.2.2⟩

theorem SlotOK.same {c : Cfg} {s s' : Slot} (h : SlotOK c s) (e : SameCore s s') : SlotOK c s' := by
  obtain ⟨e1, e2, e3, e4⟩ := e
  exact ⟨e1 ▸ h.keys, e1 ▸ h.del, fun hn => by rw [e1]; exact h.empty (e2 ▸ hn), by rw [e1, e3]; exact h.cap4, by rw [e1, e4]; exact h.cap6⟩

theorem same_setAlloc (s : Slot) (six : Bool) (q : List Nat) : SameCore s (s.setAlloc six q) := by
  unfold Slot.setAlloc; split <;> exact ⟨rfl, rfl, rfl, rfl⟩
theorem same_setDang (s : Slot) (six : Bool) (q : List Nat) : SameCore s (s.setDang six q) := by
  unfold Slot.setDang; split <;> exact ⟨rfl, rfl, rfl, rfl⟩
theorem same_purgeAlloc (s : Slot) (dn : List Nat) (six : Bool) : SameCore s (s.purgeAlloc dn six) := same_setAlloc _ _ _
theorem same_purgeDang (s : Slot) (dn : List Nat) (six : Bool) : SameCore s (s.purgeDang dn six) := same_setDang _ _ _

theorem same_switchQ (dn : List Nat) (s : Slot) (six : Bool) (r : Nat) : SameCore s (s.switchQ dn six r) := by
  unfold Slot.switchQ
  split
  · split
    · exact (same_setAlloc _ _ _).trans (same_setDang _ _ _)
    · exact (same_setAlloc _ _ _).trans (same_setDang _ _ _)
  · exact SameCore.refl s

theorem same_workerExit (dn : List Nat) (s : Slot) (r : Nat) : SameCore s (s.workerExit dn r) :=
  (same_switchQ dn s false r).trans (same_switchQ dn _ true r)

theorem same_faHeadPurge (dn : List Nat) (s : Slot) : SameCore s (s.faHeadPurge dn) := by
  unfold Slot.faHeadPurge
  simp only
  split
  · exact (same_purgeAlloc _ _ _).trans (same_purgeAlloc _ _ _)
  · exact same_purgeAlloc _ _ _

theorem same_faPlanPurge (dn : List Nat) (s : Slot) : SameCore s (s.faPlanPurge dn) :=
  (same_purgeAlloc _ _ _).trans (same_purgeAlloc _ _ _)

theorem same_canDisposePurge (dn : List Nat) (s : Slot) : SameCore s (s.canDisposePurge dn) := by
  unfold Slot.canDisposePurge
  split
  · exact SameCore.refl s
  · simp only
    have h1 := same_purgeAlloc s dn false
    have h2 := h1.trans (same_purgeAlloc _ dn true)
    have h3 := h2.trans (same_purgeDang _ dn false)
    have h4 := h3.trans (same_purgeDang _ dn true)
    split
    · exact h1
    · split
      · exact h2
      · split
        · exact h3
        · exact h4

theorem same_fdHead (dn : List Nat) (s : Slot) : SameCore s (s.fdHead dn) := by
  unfold Slot.fdHead
  split
  · exact same_canDisposePurge dn s
  · exact SameCore.refl s

theorem same_allocPurge (c : Cfg) (dn : List Nat) (s : Slot) (pod : String) (nc : Bool) (pin : String) :
    SameCore s (s.allocPurge c dn pod nc pin) := by
  unfold Slot.allocPurge
  simp only
  split
  · exact SameCore.refl s
  · split
    · split
      · exact same_purgeAlloc _ _ _
      · exact SameCore.refl s
    · split
      · split
        · exact (same_purgeAlloc _ _ _).trans (same_purgeAlloc _ _ _)
        · exact same_purgeAlloc _ _ _
      · split
        · exact same_purgeAlloc _ _ _
        · exact SameCore.refl s

theorem same_pop (s : Slot) (six : Bool) (n : Nat) : SameCore s (s.pop six n) := by
  unfold Slot.pop
  simp only
  split <;> exact (same_setDang _ _ _).trans (same_setAlloc _ _ _)

theorem same_onError (s : Slot) (c : Code) : SameCore s (s.onError c) := by
  unfold Slot.onError
  cases c <;> exact ⟨rfl, rfl, rfl, rfl⟩

end Terway.Pool

namespace Terway.Pool

/-! ### operations on the tracked addresses -/

/-- re-labelling entries (owner / status) keeps a slot well-formed as long as nothing marked for
    unassignment ends up held or primary -/
theorem SlotOK.mapIps {c : Cfg} {s s' : Slot} (h : SlotOK c s) {f : IP → IP} (hk : KeepsKey f)
    (e1 : s'.ips = s.ips.map f) (e2 : s'.eni = s.eni) (e3 : s'.plan4 = s.plan4) (e4 : s'.plan6 = s.plan6)
    (hd : ∀ a ∈ s.ips, (f a).st = .deleting → (f a).owner = none ∧ (f a).primary = false) : SlotOK c s' := by
  refine ⟨?_, ?_, ?_, ?_, ?_⟩
  · rw [e1]; exact h.keys.map hk
  · rw [e1]; exact h.del.map hd
  · intro hn; rw [e1, h.empty (e2 ▸ hn)]; rfl
  · rw [e1, e3, fam_map hk, List.length_map]; exact h.cap4
  · rw [e1, e4, fam_map hk, List.length_map]; exact h.cap6

/-- an entry after an entry-wise map -/
theorem mem_map_of {l : List IP} {f : IP → IP} {a : IP} (h : a ∈ l) : f a ∈ l.map f := List.mem_map.mpr ⟨a, h, rfl⟩

theorem setOwner_eq (l : List IP) (ips : List Nat) (o : Option String) :
    setOwner l ips o = l.map fun a => if a.ip ∈ ips then { a with owner := o } else a := rfl
theorem releaseIPs_eq (l : List IP) (pod : String) (ips : List Nat) :
    releaseIPs l pod ips = l.map fun a => if a.ip ∈ ips ∧ a.owner = some pod then { a with owner := none } else a := rfl

/-- binding addresses to a pod: safe when none of them is marked for unassignment -/
theorem SlotOK.setOwner {c : Cfg} {s : Slot} (h : SlotOK c s) (ips : List Nat) (pod : String)
    (hp : ∀ a ∈ s.ips, a.ip ∈ ips → a.st ≠ .deleting) : SlotOK c { s with ips := setOwner s.ips ips (some pod) } := by
  apply h.mapIps (s' := { s with ips := Pool.setOwner s.ips ips (some pod) }) (keeps_setOwner ips (some pod)) rfl rfl rfl rfl
  intro a ha hs
  by_cases c1 : a.ip ∈ ips
  · simp only [c1, if_true] at hs
    exact absurd hs (hp a ha c1)
  · simp only [c1, if_false] at hs ⊢
    exact h.del a ha hs

theorem SlotOK.releaseIPs {c : Cfg} {s : Slot} (h : SlotOK c s) (pod : String) (ips : List Nat) :
    SlotOK c { s with ips := releaseIPs s.ips pod ips } := by
  apply h.mapIps (s' := { s with ips := Pool.releaseIPs s.ips pod ips }) (keeps_release pod ips) rfl rfl rfl rfl
  intro a ha hs
  by_cases c1 : a.ip ∈ ips ∧ a.owner = some pod
  · rw [if_pos c1] at hs ⊢
    exact ⟨rfl, (h.del a ha hs).2⟩
  · rw [if_neg c1] at hs ⊢
    exact h.del a ha hs

/-- an entry the pick validation accepts is not marked for unassignment -/
theorem peekOK_not_deleting {l : List IP} (hd : DelOK l) {pod : String} {six : Bool} {a : IP}
    (h : peekOK l pod six a = true) : a ∈ l ∧ a.st ≠ .deleting ∧ (a.owner = some pod ∨ a.owner = none) := by
  unfold peekOK at h
  simp only [Bool.and_eq_true, decide_eq_true_eq, beq_iff_eq] at h
  obtain ⟨⟨hm, _⟩, hc⟩ := h
  refine ⟨hm, ?_, ?_⟩
  · intro hs
    have := hd a hm hs
    split at hc
    · simp only [beq_iff_eq] at hc; rw [this.1] at hc; cases hc
    · simp [IP.allocatable, hs] at hc
  · split at hc
    · left; simpa using hc
    · right
      simp only [IP.allocatable, IP.inUse, Bool.and_eq_true, Bool.not_eq_true', Option.isSome_eq_false_iff,
        Option.isNone_iff_eq_none] at hc
      exact hc.2

end Terway.Pool

namespace Terway.Pool

/-- an update that leaves tracked addresses, ENI and plan alone keeps the invariant -/
theorem PInv.updSame {c : Cfg} {l : List Slot} {cm : List Pending} (h : PInv c l cm) (i : Nat) (f : Slot → Slot)
    (hs : SameCore (slotAt l i) (f (slotAt l i))) : PInv c (updateAt l i f) cm :=
  h.upd i f ((h.slotOK i).same hs) (fun _ _ _ a ha _ ho => ⟨a, hs.1 ▸ ha, rfl, ho⟩)

/-- dropping replies from the list of those on their way -/
theorem PInv.dropCommits {c : Cfg} {l : List Slot} {cm : List Pending} (h : PInv c l cm) (q : Pending → Bool) :
    PInv c l (cm.filter q) :=
  ⟨h.slots, fun x hx => h.commits x (List.mem_filter.mp hx).1,
   fun x hx y hy => h.onePer x (List.mem_filter.mp hx).1 y (List.mem_filter.mp hy).1⟩

/-- the entry of a well-formed list with a given address, if the pick validation accepted one with that address -/
theorem pick_entry {l : List IP} (hk : Keys l) (hd : DelOK l) {pod : String} {pick : List IP}
    (hp : pick.all (fun a => peekOK l pod a.v6 a) = true) {a : IP} (ha : a ∈ l) (hi : a.ip ∈ pick.map (·.ip)) :
    a ∈ pick ∧ a.st ≠ .deleting ∧ (a.owner = some pod ∨ a.owner = none) := by
  simp only [List.mem_map] at hi
  obtain ⟨pe, hpe, e⟩ := hi
  have := peekOK_not_deleting hd (List.all_eq_true.mp hp pe hpe)
  have heq : pe = a := hk.eq this.1 ha e
  subst heq
  exact ⟨hpe, this.2.1, this.2.2⟩

theorem allocOutcome_direct {c : Cfg} {dn : List Nat} {s : Slot} {pod : String} {nc : Bool} {pin : String} {pick : List IP}
    (h : allocOutcomeOK c dn s pod nc pin (.direct pick) = true) : pick.all (fun a => peekOK s.ips pod a.v6 a) = true := by
  unfold allocOutcomeOK at h
  simp only at h
  split at h
  · simp at h
  · split at h
    · simp at h
    · simp only [Bool.and_eq_true] at h
      exact h.2

/-- `Local.Allocate` keeps the invariant -/
theorem PInv.allocate {p : Pool} (h : PInv p.cfg p.slots p.commits) (i : Nat) (r : Req) (pin : String) (out : AllocOut)
    (hok : allocOutcomeOK p.cfg p.done (p.slot i) r.pod r.nocache pin out = true)
    (hone : p.commits.any (·.pod == r.pod) = false) :
    PInv p.cfg (updateAt p.slots i fun s => s.allocate p.cfg p.done r pin out)
      (match out with
       | .direct pick => { req := r.id, pod := r.pod, slot := i, pick := pick.map (·.ip), fresh := freshOf pick r.pod } :: p.commits
       | _ => p.commits) := by
  have hs0 := same_allocPurge p.cfg p.done (slotAt p.slots i) r.pod r.nocache pin
  cases out with
  | rejected =>
    exact h.updSame i _ (by simpa [Slot.allocate] using hs0)
  | queued =>
    apply h.updSame i
    unfold Slot.allocate
    simp only
    refine hs0.trans ?_
    split
    · split
      · exact ⟨rfl, rfl, rfl, rfl⟩
      · exact ⟨rfl, rfl, rfl, rfl⟩
    · split
      · exact ⟨rfl, rfl, rfl, rfl⟩
      · exact SameCore.refl _
  | direct pick =>
    have hpk := allocOutcome_direct hok
    rw [Pool.slot_eq] at hpk
    have hsl := h.slotOK i
    have hempty : p.slots.length ≤ i → (slotAt p.slots i).ips = [] := by
      intro hi
      unfold slotAt
      rw [List.getElem?_eq_none hi]
      rfl
    generalize hsdef : slotAt p.slots i = s at *
    have hs0' : SameCore s (s.allocPurge p.cfg p.done r.pod r.nocache pin) := hs0
    generalize hs0def : s.allocPurge p.cfg p.done r.pod r.nocache pin = s0 at *
    have hok0 : SlotOK p.cfg s0 := hsl.same hs0'
    have hf : s.allocate p.cfg p.done r pin (.direct pick)
        = { s0 with ips := setOwner s0.ips (pick.map (·.ip)) (some r.pod) } := by
      simp only [Slot.allocate, hs0def]
    have hips : s0.ips = s.ips := hs0'.1
    -- the updated slot is well-formed and replies on their way keep their addresses
    have h1 : PInv p.cfg (updateAt p.slots i fun s => s.allocate p.cfg p.done r pin (.direct pick)) p.commits := by
      apply h.upd i
      · rw [hsdef, hf]
        apply hok0.setOwner
        intro a ha hi
        exact (pick_entry hsl.keys hsl.del hpk (hips ▸ ha) hi).2.1
      · intro x hx _ a ha hip ho
        rw [hsdef] at ha
        rw [hsdef, hf]
        refine ⟨if a.ip ∈ pick.map (·.ip) then { a with owner := some r.pod } else a, ?_, ?_, ?_⟩
        · simp only [setOwner_eq, hips]; exact mem_map_of ha
        · split <;> rfl
        · by_cases c1 : a.ip ∈ pick.map (·.ip)
          · -- the entry is one of the picked ones: then it is the requesting pod's, which has no reply on its way
            exfalso
            have := (pick_entry hsl.keys hsl.del hpk ha c1).2.2
            rcases this with o | o
            · rw [ho] at o
              have : x.pod = r.pod := by injection o
              have hany : p.commits.any (·.pod == r.pod) = true := List.any_eq_true.mpr ⟨x, hx, by simp [this]⟩
              rw [hone] at hany; cases hany
            · rw [ho] at o; cases o
          · simp [c1, ho]
    refine ⟨h1.slots, ?_, ?_⟩
    · intro x hx ip hip
      rcases List.mem_cons.mp hx with rfl | hx'
      · -- the new reply: its addresses were just bound
        simp only at hip ⊢
        by_cases hi : i < p.slots.length
        · rw [slotAt_updateAt_same _ hi, hsdef, hf]
          obtain ⟨pe, hpe, rfl⟩ := List.mem_map.mp hip
          have hm := (peekOK_not_deleting hsl.del (List.all_eq_true.mp hpk pe hpe)).1
          refine ⟨if pe.ip ∈ pick.map (·.ip) then { pe with owner := some r.pod } else pe, ?_, ?_, ?_⟩
          · simp only [setOwner_eq, hips]; exact mem_map_of hm
          · split <;> rfl
          · simp [hip]
        · -- no such slot: nothing could have been picked
          exfalso
          obtain ⟨pe, hpe, _⟩ := List.mem_map.mp hip
          have hm := (peekOK_not_deleting hsl.del (List.all_eq_true.mp hpk pe hpe)).1
          rw [hempty (by omega)] at hm
          cases hm
      · exact h1.commits x hx' ip hip
    · intro x hx y hy e
      have hno : ∀ z ∈ p.commits, z.pod ≠ r.pod := by
        intro z hz e'
        have hany : p.commits.any (·.pod == r.pod) = true := List.any_eq_true.mpr ⟨z, hz, by simp [e']⟩
        rw [hone] at hany; cases hany
      rcases List.mem_cons.mp hx with rfl | hx' <;> rcases List.mem_cons.mp hy with rfl | hy'
      · rfl
      · exact absurd e.symm (hno y hy')
      · exact absurd e (hno x hx')
      · exact h.onePer x hx' y hy' e

end Terway.Pool

namespace Terway.Pool

theorem commitIPs_eq (l : List IP) (pod : String) (ips fresh : List Nat) (d : Bool) :
    commitIPs l pod ips fresh d = if d then setOwner l ips (some pod) else releaseIPs (setOwner l ips (some pod)) pod fresh := rfl

theorem SlotOK.commitIPs {c : Cfg} {s : Slot} (h : SlotOK c s) (pod : String) (ips fresh : List Nat) (d : Bool)
    (hp : ∀ a ∈ s.ips, a.ip ∈ ips → a.st ≠ .deleting) :
    SlotOK c { s with ips := Pool.commitIPs s.ips pod ips fresh d } := by
  rw [commitIPs_eq]
  cases d
  · exact (h.setOwner ips pod hp).releaseIPs pod fresh
  · exact h.setOwner ips pod hp

/-- an entry not owned by `pod` keeps its owner through a commit for `pod` that does not pick it -/
theorem commitIPs_other {l : List IP} {pod : String} {ips fresh : List Nat} {d : Bool} {a : IP} (ha : a ∈ l)
    (hn : a.ip ∉ ips) (ho : a.owner ≠ some pod) : a ∈ Pool.commitIPs l pod ips fresh d := by
  rw [commitIPs_eq]
  have h1 : a ∈ setOwner l ips (some pod) := by
    rw [setOwner_eq]
    have := mem_map_of (f := fun a => if a.ip ∈ ips then { a with owner := some pod } else a) ha
    simpa [hn] using this
  cases d
  · simp only [Bool.false_eq_true, if_false]
    rw [releaseIPs_eq]
    have := mem_map_of (f := fun a => if a.ip ∈ fresh ∧ a.owner = some pod then { a with owner := none } else a) h1
    simpa [ho] using this
  · simpa using h1

/-- the reply goroutine of a direct allocation keeps the invariant -/
theorem PInv.commit {c : Cfg} {l : List Slot} {cm : List Pending} (h : PInv c l cm) {x : Pending} (hx : x ∈ cm) (d : Bool) :
    PInv c (updateAt l x.slot fun s => { s with ips := Pool.commitIPs s.ips x.pod x.pick x.fresh d }) (cm.filter (·.req != x.req)) := by
  have hsl := h.slotOK x.slot
  have hpick : ∀ a ∈ (slotAt l x.slot).ips, a.ip ∈ x.pick → a.owner = some x.pod := by
    intro a ha hi
    obtain ⟨b, hb, e1, e2⟩ := h.commits x hx a.ip hi
    rw [hsl.keys.eq ha hb e1.symm]; exact e2
  apply (h.dropCommits (·.req != x.req)).upd x.slot
  · apply hsl.commitIPs
    intro a ha hi hs
    have := (hsl.del a ha hs).1
    rw [hpick a ha hi] at this; cases this
  · intro y hy _ a ha hip ho
    have hy' := List.mem_filter.mp hy
    have hne : y.pod ≠ x.pod := by
      intro e
      have := h.onePer y hy'.1 x hx e
      rw [this] at hy'
      simp at hy'
    refine ⟨a, commitIPs_other ha ?_ ?_, rfl, ho⟩
    · intro hi
      have := hpick a ha hi
      rw [ho] at this
      exact hne (by injection this)
    · rw [ho]; intro e; exact hne (by injection e)

end Terway.Pool

namespace Terway.Pool

theorem freshOf_not_own {pick : List IP} {pod : String} {a : IP} (ha : a ∈ pick) (ho : a.owner = some pod)
    (hk : ∀ b ∈ pick, b.ip = a.ip → b = a) : a.ip ∉ freshOf pick pod := by
  unfold freshOf
  intro hm
  simp only [List.mem_map, List.mem_filter] at hm
  obtain ⟨b, ⟨hb, hbo⟩, e⟩ := hm
  have := hk b hb e
  subst this
  simp [ho] at hbo

theorem freshOf_sub (pick : List IP) (pod : String) : ∀ i ∈ freshOf pick pod, i ∈ pick.map (·.ip) := by
  intro i hi
  unfold freshOf at hi
  simp only [List.mem_map, List.mem_filter] at hi ⊢
  obtain ⟨b, ⟨hb, _⟩, e⟩ := hi
  exact ⟨b, hb, e⟩

/-- a queued request's worker finding its addresses keeps the invariant -/
theorem PInv.workerServe {c : Cfg} {l : List Slot} {cm : List Pending} (h : PInv c l cm) (i r : Nat) (dn : List Nat)
    (pod : String) (pick : List IP) (d : Bool)
    (hpk : pick.all (fun a => peekOK (slotAt l i).ips pod a.v6 a) = true) :
    PInv c (updateAt l i fun s =>
      ({ s with ips := Pool.commitIPs s.ips pod (pick.map IP.ip) (freshOf pick pod) d }).workerExit dn r) cm := by
  have hsl := h.slotOK i
  apply h.upd i
  · exact (hsl.commitIPs pod _ _ d (fun a ha hi => (pick_entry hsl.keys hsl.del hpk ha hi).2.1)).same (same_workerExit dn _ r)
  · intro x hx _ a ha hip ho
    have hsame := same_workerExit dn ({ slotAt l i with ips := Pool.commitIPs (slotAt l i).ips pod (pick.map IP.ip) (freshOf pick pod) d }) r
    rw [hsame.1]
    simp only
    rw [commitIPs_eq]
    by_cases c1 : a.ip ∈ pick.map IP.ip
    · -- picked: it is the serving pod's own entry, which stays bound whether the reply arrives or not
      have hpe := pick_entry hsl.keys hsl.del hpk ha c1
      have hpod : x.pod = pod := by
        rcases hpe.2.2 with o | o
        · rw [ho] at o; injection o
        · rw [ho] at o; cases o
      have hnf : a.ip ∉ freshOf pick pod :=
        freshOf_not_own hpe.1 (hpod ▸ ho) (fun b hb e =>
          hsl.keys.eq (peekOK_not_deleting hsl.del (List.all_eq_true.mp hpk b hb)).1 ha e)
      have h1 : ({ a with owner := some pod } : IP) ∈ setOwner (slotAt l i).ips (pick.map IP.ip) (some pod) := by
        rw [setOwner_eq]
        have := mem_map_of (f := fun a => if a.ip ∈ pick.map IP.ip then { a with owner := some pod } else a) ha
        simpa [c1] using this
      cases d
      · simp only [Bool.false_eq_true, if_false]
        refine ⟨{ a with owner := some pod }, ?_, rfl, by rw [hpod]⟩
        rw [releaseIPs_eq]
        have := mem_map_of (f := fun a => if a.ip ∈ freshOf pick pod ∧ a.owner = some pod then { a with owner := none } else a) h1
        simpa [hnf] using this
      · simp only [if_true]
        exact ⟨{ a with owner := some pod }, h1, rfl, by rw [hpod]⟩
    · have h1 : a ∈ setOwner (slotAt l i).ips (pick.map IP.ip) (some pod) := by
        rw [setOwner_eq]
        have := mem_map_of (f := fun a => if a.ip ∈ pick.map IP.ip then { a with owner := some pod } else a) ha
        simpa [c1] using this
      have hnf : a.ip ∉ freshOf pick pod := fun hm => c1 (freshOf_sub pick pod _ hm)
      cases d
      · simp only [Bool.false_eq_true, if_false]
        refine ⟨a, ?_, rfl, ho⟩
        rw [releaseIPs_eq]
        have := mem_map_of (f := fun a => if a.ip ∈ freshOf pick pod ∧ a.owner = some pod then { a with owner := none } else a) h1
        simpa [hnf] using this
      · simp only [if_true]
        exact ⟨a, h1, rfl, ho⟩

/-- `Local.Release` keeps the invariant (no reply to that pod is on its way) -/
theorem PInv.release {c : Cfg} {l : List Slot} {cm : List Pending} (h : PInv c l cm) (i : Nat) (eni pod : String) (ips : List Nat)
    (hno : cm.any (·.pod == pod) = false) : PInv c (updateAt l i fun s => s.release eni pod ips) cm := by
  have hsl := h.slotOK i
  apply h.upd i
  · unfold Slot.release; split
    · exact hsl.releaseIPs pod ips
    · exact hsl
  · intro x hx _ a ha _ ho
    have hne : x.pod ≠ pod := by
      intro e
      have : cm.any (·.pod == pod) = true := List.any_eq_true.mpr ⟨x, hx, by simp [e]⟩
      rw [hno] at this; cases this
    unfold Slot.release; split
    · refine ⟨a, ?_, rfl, ho⟩
      simp only
      rw [releaseIPs_eq]
      have := mem_map_of (f := fun a => if a.ip ∈ ips ∧ a.owner = some pod then { a with owner := none } else a) ha
      have hn : ¬ (a.ip ∈ ips ∧ a.owner = some pod) := by
        intro hc; rw [ho] at hc; exact hne (by injection hc.2)
      simpa [hn] using this
    · exact ⟨a, ha, rfl, ho⟩

theorem disposeIPs_eq (l : List IP) (ips : List Nat) :
    disposeIPs l ips = l.map fun a => if a.ip ∈ ips ∧ (!a.primary) = true then { a with st := .deleting } else a := rfl

theorem syncIPs_eq (l : List IP) (remote : List Nat) :
    syncIPs l remote = l.map fun a => if a.st = .valid ∧ a.ip ∉ remote then { a with st := .invalid } else a := rfl

/-- every address a validated dispose marks belongs to an entry nobody holds -/
theorem disposeMarks_unowned {l : List IP} (hk : Keys l) {six : Bool} {n : Nat} {marks : List Nat}
    (h : disposeMarksOK (fam six l) n marks = true) {a : IP} (ha : a ∈ l) (hi : a.ip ∈ marks) : a.owner = none := by
  unfold disposeMarksOK at h
  simp only [Bool.and_eq_true] at h
  have hall := List.all_eq_true.mp h.1.1.1 a.ip hi
  simp only [Bool.or_eq_true, List.any_eq_true, List.mem_filter, beq_iff_eq] at hall
  have : ∃ b ∈ l, b.ip = a.ip ∧ b.inUse = false := by
    rcases hall with ⟨b, ⟨hb, hq⟩, e⟩ | ⟨b, ⟨hb, hq⟩, e⟩
    · simp only [Bool.and_eq_true, Bool.not_eq_true'] at hq
      exact ⟨b, (List.mem_filter.mp hb).1, e, hq.1.1⟩
    · simp only [Bool.and_eq_true, Bool.not_eq_true'] at hq
      exact ⟨b, (List.mem_filter.mp hb).1, e, hq.1.1⟩
  obtain ⟨b, hb, e, hu⟩ := this
  have := hk.eq hb ha e
  subst this
  simpa [IP.inUse] using hu

/-- `Local.Dispose(n)` keeps the invariant -/
theorem PInv.dispose {c : Cfg} {l : List Slot} {cm : List Pending} (h : PInv c l cm) (i n : Nat) (dn : List Nat) (out : DisposeOut)
    (hok : (slotAt l i).disposeOK dn n out = true) : PInv c (updateAt l i fun s => s.dispose dn n out) cm := by
  have hsl := h.slotOK i
  generalize hsdef : slotAt l i = s at *
  -- the `canDispose` evaluation only purges queues
  have hpre : ∃ s0, SameCore s s0 ∧ s.dispose dn n out =
      (match out with
       | .nothing => s0
       | .wholeENI => { s0 with status := .deleting }
       | .marks m4 m6 => { s0 with ips := disposeIPs s0.ips (m4 ++ m6) }) := by
    unfold Slot.dispose
    by_cases hc : (s.eni.isSome && s.status == .inUse && decide (max (fam false s.ips).length (fam true s.ips).length ≤ n)) = true
    · refine ⟨s.canDisposePurge dn, same_canDisposePurge dn s, ?_⟩
      simp only [hc, if_true]
      cases out <;> rfl
    · refine ⟨s, SameCore.refl s, ?_⟩
      simp only [hc]
      cases out <;> rfl
  obtain ⟨s0, hs0, hd⟩ := hpre
  have hok0 : SlotOK c s0 := hsl.same hs0
  cases out with
  | nothing =>
    apply h.updSame i; rw [hsdef, hd]; exact hs0
  | wholeENI =>
    apply h.updSame i; rw [hsdef, hd]; exact hs0.trans ⟨rfl, rfl, rfl, rfl⟩
  | marks m4 m6 =>
    have hm : disposeMarksOK (fam false s.ips) n m4 = true ∧ disposeMarksOK (fam true s.ips) n m6 = true := by
      unfold Slot.disposeOK at hok
      split at hok
      · simp at hok
      · split at hok
        · simp at hok
        · simp only [Bool.and_eq_true] at hok
          exact ⟨hok.1.1.1, hok.1.1.2⟩
    apply h.upd i
    · rw [hsdef, hd]
      apply hok0.mapIps (s' := { s0 with ips := disposeIPs s0.ips (m4 ++ m6) }) (keeps_dispose (m4 ++ m6)) rfl rfl rfl rfl
      intro a ha hs
      by_cases c1 : a.ip ∈ m4 ++ m6 ∧ (!a.primary) = true
      · rw [if_pos c1]
        have hu : a.owner = none := by
          rw [hs0.1] at ha
          rcases List.mem_append.mp c1.1 with q | q
          · exact disposeMarks_unowned hsl.keys hm.1 ha q
          · exact disposeMarks_unowned hsl.keys hm.2 ha q
        exact ⟨hu, by simpa using c1.2⟩
      · rw [if_neg c1] at hs ⊢
        exact hok0.del a ha hs
    · intro x _ _ a ha _ ho
      rw [hsdef] at ha
      rw [hsdef, hd]
      refine ⟨if a.ip ∈ m4 ++ m6 ∧ (!a.primary) = true then { a with st := .deleting } else a, ?_, ?_, ?_⟩
      · simp only [disposeIPs_eq, hs0.1]; exact mem_map_of ha
      · split <;> rfl
      · split <;> exact ho

/-- the periodic sync keeps the invariant -/
theorem PInv.sync {c : Cfg} {l : List Slot} {cm : List Pending} (h : PInv c l cm) (i : Nat) (remote : Option (List Nat)) :
    PInv c (updateAt l i fun s => s.sync remote) cm := by
  have hsl := h.slotOK i
  generalize hsdef : slotAt l i = s at *
  by_cases hc : (s.eni.isNone || s.status != .inUse) = true
  · apply h.updSame i
    rw [hsdef]; unfold Slot.sync; rw [if_pos hc]; exact SameCore.refl s
  · cases remote with
    | none =>
      apply h.updSame i
      rw [hsdef]; unfold Slot.sync; rw [if_neg hc]; exact SameCore.refl s
    | some r =>
      have hf : s.sync (some r) = { s with ips := syncIPs s.ips r } := by unfold Slot.sync; rw [if_neg hc]
      apply h.upd i
      · rw [hsdef, hf]
        apply hsl.mapIps (s' := { s with ips := syncIPs s.ips r }) (keeps_sync r) rfl rfl rfl rfl
        intro a ha hs
        by_cases c1 : a.st = .valid ∧ a.ip ∉ r
        · rw [if_pos c1] at hs; cases hs
        · rw [if_neg c1] at hs ⊢; exact hsl.del a ha hs
      · intro x _ _ a ha _ ho
        rw [hsdef] at ha
        rw [hsdef, hf]
        refine ⟨if a.st = .valid ∧ a.ip ∉ r then { a with st := .invalid } else a, ?_, ?_, ?_⟩
        · simp only [syncIPs_eq]; exact mem_map_of ha
        · split <;> rfl
        · split <;> exact ho

end Terway.Pool

namespace Terway.Pool

/-! ### the factory worker -/

theorem fam_nil (six : Bool) : fam six [] = [] := rfl

theorem faPlan_counts_bound {c : Cfg} {s : Slot} (dn : List Nat) (h : SlotOK c s) (hb : c.batch ≤ c.cap) :
    (fam false s.ips).length + (match s.faPlan c dn with | .create a _ => a | .assign a _ => a) ≤ c.cap ∧
    (fam true s.ips).length + (match s.faPlan c dn with | .create _ b => b | .assign _ b => b) ≤ c.cap := by
  unfold Slot.faPlan
  simp only
  cases he : s.eni with
  | none =>
    have := h.empty he
    simp only [Option.isNone_none, if_true, this, fam_nil, List.length_nil, Nat.zero_add]
    exact ⟨Nat.le_trans (Nat.min_le_left _ _) hb, Nat.le_trans (Nat.min_le_left _ _) hb⟩
  | some e =>
    have h4 := h.cap4
    have h6 := h.cap6
    simp only [Option.isNone_some, Bool.false_eq_true, if_false]
    have a4 := Nat.min_le_right (min c.batch (live dn s.alloc4).length) (c.cap - (fam false s.ips).length)
    have a6 := Nat.min_le_right (min c.batch (live dn s.alloc6).length) (c.cap - (fam true s.ips).length)
    generalize min (min c.batch (live dn s.alloc4).length) (c.cap - (fam false s.ips).length) = n4 at *
    generalize min (min c.batch (live dn s.alloc6).length) (c.cap - (fam true s.ips).length) = n6 at *
    constructor <;> omega

/-- an update that only fixes the outstanding plan (within the per-ENI limit) keeps the invariant -/
theorem PInv.updPlan {c : Cfg} {l : List Slot} {cm : List Pending} (h : PInv c l cm) (i : Nat) (f : Slot → Slot) (n4 n6 : Nat)
    (e : (f (slotAt l i)).ips = (slotAt l i).ips ∧ (f (slotAt l i)).eni = (slotAt l i).eni ∧
         (f (slotAt l i)).plan4 = n4 ∧ (f (slotAt l i)).plan6 = n6)
    (hb4 : (fam false (slotAt l i).ips).length + n4 ≤ c.cap) (hb6 : (fam true (slotAt l i).ips).length + n6 ≤ c.cap) :
    PInv c (updateAt l i f) cm := by
  have hsl := h.slotOK i
  obtain ⟨e1, e2, e3, e4⟩ := e
  apply h.upd i
  · exact ⟨e1 ▸ hsl.keys, e1 ▸ hsl.del, fun hn => by rw [e1]; exact hsl.empty (e2 ▸ hn),
      by rw [e1, e3]; exact hb4, by rw [e1, e4]; exact hb6⟩
  · intro x _ _ a ha _ ho
    exact ⟨a, e1 ▸ ha, rfl, ho⟩

theorem fam_append (six : Bool) (l m : List IP) : fam six (l ++ m) = fam six l ++ fam six m := by
  simp [fam, List.filter_append]

theorem fam_newIPs_same {ips : List Nat} {six : Bool} (h : ∀ i ∈ ips, decide (v6Base ≤ i) = six) (pr : Option Nat) (st : IPSt) :
    (fam six (newIPs ips pr st)).length = ips.length := by
  unfold fam newIPs
  rw [List.filter_eq_self.mpr]
  · simp
  · intro a ha
    simp only [List.mem_map] at ha
    obtain ⟨i, hi, rfl⟩ := ha
    simp [IP.v6, h i hi]

theorem fam_newIPs_other {ips : List Nat} {six : Bool} (h : ∀ i ∈ ips, decide (v6Base ≤ i) = six) (pr : Option Nat) (st : IPSt) :
    fam (!six) (newIPs ips pr st) = [] := by
  unfold fam newIPs
  apply List.filter_eq_nil_iff.mpr
  intro a ha
  simp only [List.mem_map] at ha
  obtain ⟨i, hi, rfl⟩ := ha
  simp [IP.v6, h i hi]

/-- adding addresses the interface does not have yet, all of one family, within the outstanding plan -/
theorem SlotOK.addNew {c : Cfg} {s s' : Slot} (h : SlotOK c s) {ips : List Nat} {six : Bool} {pr : Option Nat} {st : IPSt}
    (hn : ips.Nodup) (hf : ∀ ip ∈ ips, ∀ a ∈ s.ips, a.ip ≠ ip) (hfam : ∀ i ∈ ips, decide (v6Base ≤ i) = six)
    (hp : st = .deleting → pr = none)
    (e1 : s'.ips = s.ips ++ newIPs ips pr st) (e2 : s'.eni ≠ none)
    (hc4 : (if six then s'.plan4 = s.plan4 else ips.length + s'.plan4 ≤ s.plan4))
    (hc6 : (if six then ips.length + s'.plan6 ≤ s.plan6 else s'.plan6 = s.plan6)) : SlotOK c s' := by
  refine ⟨?_, ?_, fun hn' => absurd hn' e2, ?_, ?_⟩
  · rw [e1]; exact h.keys.append_new hn hf
  · rw [e1]; exact h.del.append (DelOK.newIPs ips pr st hp)
  · rw [e1, fam_append, List.length_append]
    have h4 := h.cap4
    cases six with
    | true =>
      have := fam_newIPs_other (six := true) hfam pr st
      simp only [Bool.not_true] at this
      simp only [if_true] at hc4
      rw [this, hc4]; simpa using h4
    | false =>
      rw [fam_newIPs_same hfam]
      simp only [Bool.false_eq_true, if_false] at hc4
      omega
  · rw [e1, fam_append, List.length_append]
    have h6 := h.cap6
    cases six with
    | true =>
      rw [fam_newIPs_same hfam]
      simp only [if_true] at hc6
      omega
    | false =>
      have := fam_newIPs_other (six := false) hfam pr st
      simp only [Bool.not_false] at this
      simp only [Bool.false_eq_true, if_false] at hc6
      rw [this, hc6]; simpa using h6

end Terway.Pool

namespace Terway.Pool

theorem putIPs_nil (new : List IP) : putIPs [] new = new := by simp [putIPs]

theorem newIPs_valid_no_deleting (ips : List Nat) (pr : Option Nat) : DelOK (newIPs ips pr .valid) :=
  DelOK.newIPs ips pr .valid (fun h => by cases h)

/-- the slot right after a successful `CreateNetworkInterface` -/
theorem SlotOK.created {c : Cfg} {s' : Slot} {v4 v6 : List Nat} {pr : Nat} {n4 n6 : Nat}
    (e1 : s'.ips = putIPs (putIPs [] (newIPs v4 (some pr) .valid)) (newIPs v6 none .valid)) (e2 : s'.eni ≠ none)
    (e3 : s'.plan4 = 0) (e4 : s'.plan6 = 0) (hn : (v4 ++ v6).Nodup)
    (h4 : ∀ i ∈ v4, decide (v6Base ≤ i) = false) (h6 : ∀ i ∈ v6, decide (v6Base ≤ i) = true)
    (l4 : v4.length ≤ n4) (l6 : v6.length ≤ n6) (c4 : n4 ≤ c.cap) (c6 : n6 ≤ c.cap) : SlotOK c s' := by
  have hfresh : ∀ ip ∈ v6, ∀ a ∈ newIPs v4 (some pr) IPSt.valid, a.ip ≠ ip := by
    intro ip hip a ha e
    simp only [newIPs, List.mem_map] at ha
    obtain ⟨i, hi, rfl⟩ := ha
    simp only at e
    subst e
    have a1 := h4 i hi
    have a2 := h6 i hip
    rw [a1] at a2; cases a2
  have hips : s'.ips = newIPs v4 (some pr) .valid ++ newIPs v6 none .valid := by
    rw [e1, putIPs_nil, putIPs_fresh hfresh]
  refine ⟨?_, ?_, fun h => absurd h e2, ?_, ?_⟩
  · rw [hips]; unfold Keys; rw [List.map_append, newIPs_ips, newIPs_ips]; exact hn
  · rw [hips]; exact (newIPs_valid_no_deleting v4 _).append (newIPs_valid_no_deleting v6 _)
  · rw [hips, e3, fam_append, List.length_append, fam_newIPs_same h4]
    have := fam_newIPs_other (six := true) h6 none .valid
    simp only [Bool.not_true] at this
    rw [this]; simp only [List.length_nil]; omega
  · rw [hips, e4, fam_append, List.length_append, fam_newIPs_same h6]
    have := fam_newIPs_other (six := false) h4 (some pr) .valid
    simp only [Bool.not_false] at this
    rw [this]; simp only [List.length_nil]; omega

/-- an update of a slot that tracks nothing and that no reply relies on -/
theorem PInv.updEmpty {c : Cfg} {l : List Slot} {cm : List Pending} (h : PInv c l cm) (i : Nat) (f : Slot → Slot)
    (he : (slotAt l i).ips = []) (hok : SlotOK c (f (slotAt l i))) : PInv c (updateAt l i f) cm :=
  h.upd i f hok (fun _ _ _ a ha _ _ => by rw [he] at ha; cases ha)

end Terway.Pool

namespace Terway.Pool

def Pool.Inv (p : Pool) : Prop := PInv p.cfg p.slots p.commits

theorem Pool.Inv.init (cfg : Cfg) (n : Nat) : (Pool.init cfg n).Inv := by
  refine ⟨?_, ?_, ?_⟩
  · intro s hs
    simp only [Pool.init, List.mem_replicate] at hs
    rw [hs.2]; exact SlotOK.emptySlot cfg
  · intro x hx; simp [Pool.init] at hx
  · intro x hx; simp [Pool.init] at hx

theorem removeIPs_eq (l : List IP) (ips : List Nat) : removeIPs l ips = l.filter fun a => decide (a.ip ∉ ips) := rfl

theorem fam_filter_len (six : Bool) (l : List IP) (q : IP → Bool) : (fam six (l.filter q)).length ≤ (fam six l).length := by
  induction l with
  | nil => simp [fam]
  | cons a t ih =>
    unfold fam at *
    by_cases hq : q a = true
    · by_cases hv : (a.v6 == six) = true
      · simp only [List.filter_cons, hq, hv, if_true, List.length_cons]; omega
      · simp only [List.filter_cons, hq, hv, if_true, Bool.false_eq_true, if_false]; exact ih
    · by_cases hv : (a.v6 == six) = true
      · simp only [List.filter_cons, hq, hv, if_true, Bool.false_eq_true, if_false, List.length_cons]; omega
      · simp only [List.filter_cons, hq, hv, Bool.false_eq_true, if_false]; exact ih

theorem ite_some_eq {α : Type} {c : Prop} [Decidable c] {a b : α} (h : (if c then some a else none) = some b) : c ∧ a = b := by
  by_cases hc : c
  · rw [if_pos hc] at h; exact ⟨hc, by injection h⟩
  · rw [if_neg hc] at h; cases h

/-- one lock region keeps the invariant -/
theorem Pool.Inv.step {p p' : Pool} (h : p.Inv) (hb : p.cfg.batch ≤ p.cfg.cap) (ev : Ev) (hs : p.step ev = some p') :
    p'.Inv ∧ p'.cfg = p.cfg := by
  unfold Pool.Inv at *
  cases ev with
  | allocate i r pin out =>
    simp only [Pool.step] at hs
    by_cases hc : (allocOutcomeOK p.cfg p.done (p.slot i) r.pod r.nocache pin out && !(p.commits.any (·.pod == r.pod))) = true
    · rw [if_pos hc] at hs
      simp only [Bool.and_eq_true, Bool.not_eq_true'] at hc
      have := PInv.allocate h i r pin out hc.1 hc.2
      cases out <;> (simp only at hs; cases hs; exact ⟨this, rfl⟩)
    · rw [if_neg hc] at hs; cases hs
  | commit r d =>
    simp only [Pool.step] at hs
    split at hs
    · rename_i c hc
      cases hs
      have hm : c ∈ p.commits := List.mem_of_find?_eq_some hc
      have hr : c.req = r := by simpa using List.find?_some hc
      have := PInv.commit h hm d
      rw [hr] at this
      exact ⟨this, rfl⟩
    · cases hs
  | workerServe i r pick d =>
    simp only [Pool.step] at hs
    cases hrq : p.req? r with
    | none => rw [hrq] at hs; cases hs
    | some rq =>
      rw [hrq] at hs
      simp only at hs
      obtain ⟨hc, rfl⟩ := ite_some_eq hs
      simp only [Bool.and_eq_true] at hc
      exact ⟨PInv.workerServe h i r p.done rq.pod pick d hc.2, rfl⟩
  | workerExit i r =>
    simp only [Pool.step] at hs
    by_cases hc : (decide (r ∈ p.done) && !((p.req? r).any (·.nocache))) = true
    · rw [if_pos hc] at hs; cases hs
    · rw [if_neg hc] at hs
      cases hs
      exact ⟨h.updSame i _ (same_workerExit _ _ _), rfl⟩
  | faHead i =>
    simp only [Pool.step] at hs
    cases hs
    exact ⟨h.updSame i _ (same_faHeadPurge _ _), rfl⟩
  | faPlanned i =>
    simp only [Pool.step] at hs
    have hbd := faPlan_counts_bound p.done (show SlotOK p.cfg (p.slot i) from h.slotOK i) hb
    have hsame := same_faPlanPurge p.done (p.slot i)
    cases hpl : (p.slot i).faPlan p.cfg p.done with
    | create a b =>
      rw [hpl] at hs
      rw [hpl] at hbd
      simp only at hs hbd
      split at hs
      · cases hs
        exact ⟨h.updPlan i _ a b ⟨hsame.1, hsame.2.1, rfl, rfl⟩ hbd.1 hbd.2, rfl⟩
      · split at hs
        · cases hs
          exact ⟨h.updPlan i _ a b ⟨hsame.1, hsame.2.1, rfl, rfl⟩ hbd.1 hbd.2, rfl⟩
        · cases hs
    | assign a b =>
      rw [hpl] at hs
      rw [hpl] at hbd
      simp only at hs hbd
      split at hs
      · cases hs
        exact ⟨h.updPlan i _ a b ⟨hsame.1, hsame.2.1, rfl, rfl⟩ hbd.1 hbd.2, rfl⟩
      · split at hs
        · cases hs
          exact ⟨h.updPlan i _ a b ⟨hsame.1, hsame.2.1, rfl, rfl⟩ hbd.1 hbd.2, rfl⟩
        · cases hs
  | faCreated i v4n v6n res =>
    simp only [Pool.step] at hs
    have hs' := ite_some_eq hs
    clear hs
    obtain ⟨hc, rfl⟩ := hs'
    · simp only [Bool.and_eq_true, decide_eq_true_eq, beq_iff_eq, Bool.or_eq_true] at hc
      obtain ⟨⟨⟨⟨⟨⟨⟨⟨⟨⟨hst, hen⟩, hp4⟩, hp6⟩, hl4⟩, hl6⟩, hnd⟩, hv4⟩, hv6⟩, heo⟩, _⟩ := hc
      have hsl : SlotOK p.cfg (p.slot i) := h.slotOK i
      have hnone : (p.slot i).eni = none := by simpa using hen
      have hemp := hsl.empty hnone
      refine ⟨?_, rfl⟩
      apply h.updEmpty i _ hemp
      apply SlotOK.same (s := { Slot.created (p.slot i) v4n v6n res with plan4 := 0, plan6 := 0 }) _ (same_faHeadPurge _ _)
      have c4 : v4n ≤ p.cfg.cap := by have := hsl.cap4; rw [hemp] at this; simp only [fam_nil, List.length_nil] at this; omega
      have c6 : v6n ≤ p.cfg.cap := by have := hsl.cap6; rw [hemp] at this; simp only [fam_nil, List.length_nil] at this; omega
      unfold Slot.created
      cases herr : res.err with
      | some code =>
        simp only
        have hi : (Slot.onError (p.slot i) code).ips = [] := by rw [(same_onError _ code).1]; exact hemp
        cases res.eni with
        | some e =>
          exact ⟨by simp [Keys, hi], by intro a ha; simp [hi] at ha, fun _ => hi, by simp [hi, fam_nil], by simp [hi, fam_nil]⟩
        | none =>
          exact ⟨by simp [Keys, hi], by intro a ha; simp [hi] at ha, fun _ => hi, by simp [hi, fam_nil], by simp [hi, fam_nil]⟩
      | none =>
        simp only
        have he : res.eni ≠ none := by
          rcases heo with e | e
          · rw [herr] at e; simp at e
          · intro hn; rw [hn] at e; simp at e
        have hi : ((Slot.pop (Slot.pop { p.slot i with eni := res.eni } false v4n) true v6n)).ips = [] := by
          rw [(same_pop _ true v6n).1, (same_pop _ false v4n).1]; exact hemp
        apply SlotOK.created (v4 := res.v4) (v6 := res.v6) (pr := res.primary) (n4 := v4n) (n6 := v6n) _ _ rfl rfl hnd
          (fun i hi' => by simpa using List.all_eq_true.mp hv4 i hi')
          (fun i hi' => by simpa using List.all_eq_true.mp hv6 i hi') hl4 hl6 c4 c6
        · show putIPs (putIPs (Slot.pop (Slot.pop { p.slot i with eni := res.eni } false v4n) true v6n).ips _) _ = _
          rw [hi]
        · show (Slot.pop (Slot.pop { p.slot i with eni := res.eni } false v4n) true v6n).eni ≠ none
          rw [(same_pop _ true v6n).2.1, (same_pop _ false v4n).2.1]; exact he
  | faAssigned i six res toHead =>
    simp only [Pool.step] at hs
    cases hen : (p.slot i).eni with
    | none =>
      -- the interface was deleted while the call was in flight: only a failure without addresses is accepted,
      -- the slot keeps its (empty) address list, one plan is reset
      rw [hen] at hs
      simp only at hs
      obtain ⟨hc, rfl⟩ := ite_some_eq hs
      simp only [Bool.and_eq_true, List.isEmpty_iff] at hc
      obtain ⟨hips, herr'⟩ := hc
      obtain ⟨code, herr⟩ := Option.isSome_iff_exists.mp herr'
      have hsl : SlotOK p.cfg (p.slot i) := h.slotOK i
      have hemp := hsl.empty hen
      refine ⟨?_, rfl⟩
      apply h.updEmpty i _ hemp
      have hass : SameCore (p.slot i) ((p.slot i).assigned six res) := by
        unfold Slot.assigned
        rw [herr]
        simp only
        refine SameCore.trans ?_ (same_onError _ code)
        rw [hips]
        exact ⟨by simp [newIPs, putIPs], rfl, rfl, rfl⟩
      have hok0 : SlotOK p.cfg ((p.slot i).assigned six res) := hsl.same hass
      have hok1 : SlotOK p.cfg (if six then { (p.slot i).assigned six res with plan6 := 0 } else { (p.slot i).assigned six res with plan4 := 0 }) := by
        cases six with
        | true =>
          simp only [if_true]
          exact ⟨hok0.keys, hok0.del, hok0.empty, hok0.cap4, by have := hok0.cap6; simp only at this ⊢; omega⟩
        | false =>
          simp only [Bool.false_eq_true, if_false]
          exact ⟨hok0.keys, hok0.del, hok0.empty, by have := hok0.cap4; simp only at this ⊢; omega, hok0.cap6⟩
      split
      · exact hok1.same (same_faHeadPurge _ _)
      · exact hok1
    | some e =>
      rw [hen] at hs
      simp only at hs
      obtain ⟨hc, rfl⟩ := ite_some_eq hs
      · simp only [Bool.and_eq_true, decide_eq_true_eq] at hc
        obtain ⟨⟨hlen, hnd⟩, hall⟩ := hc
        have hsl : SlotOK p.cfg (p.slot i) := h.slotOK i
        generalize hsdef : p.slot i = s at *
        have hsdef' : slotAt p.slots i = s := hsdef
        have hfam : ∀ ip ∈ res.ips, decide (v6Base ≤ ip) = six := by
          intro ip hip
          have := List.all_eq_true.mp hall ip hip
          simp only [Bool.and_eq_true, beq_iff_eq] at this
          exact this.1
        have hfresh : ∀ ip ∈ res.ips, ∀ a ∈ s.ips, a.ip ≠ ip := by
          intro ip hip a ha e'
          have := List.all_eq_true.mp hall ip hip
          simp only [Bool.and_eq_true, Bool.not_eq_true', List.any_eq_false, beq_iff_eq] at this
          exact this.2 a ha e'
        -- the slot after the result has been applied (before the optional run to the loop head)
        have hok1 : SlotOK p.cfg (if six then { s.assigned six res with plan6 := 0 } else { s.assigned six res with plan4 := 0 }) := by
          unfold Slot.assigned
          cases herr : res.err with
          | some code =>
            simp only
            have hsame := same_onError ({ s with ips := putIPs s.ips (newIPs res.ips none .deleting) }) code
            cases six with
            | true =>
              simp only [if_true]
              apply hsl.addNew (six := true) (pr := none) (st := .deleting) hnd hfresh hfam (fun _ => rfl)
              · show (Slot.onError _ code).ips = _
                rw [hsame.1]; exact putIPs_fresh hfresh
              · show (Slot.onError _ code).eni ≠ none
                rw [hsame.2.1]; simp [hen]
              · simp only [if_true]; show (Slot.onError _ code).plan4 = _; rw [hsame.2.2.1]
              · simp only [if_true]; simp only [if_true] at hlen; omega
            | false =>
              simp only [Bool.false_eq_true, if_false]
              apply hsl.addNew (six := false) (pr := none) (st := .deleting) hnd hfresh hfam (fun _ => rfl)
              · show (Slot.onError _ code).ips = _
                rw [hsame.1]; exact putIPs_fresh hfresh
              · show (Slot.onError _ code).eni ≠ none
                rw [hsame.2.1]; simp [hen]
              · simp only [Bool.false_eq_true, if_false]; simp only [Bool.false_eq_true, if_false] at hlen; omega
              · simp only [Bool.false_eq_true, if_false]; show (Slot.onError _ code).plan6 = _; rw [hsame.2.2.2]
          | none =>
            simp only
            have hsame := same_pop s six res.ips.length
            cases six with
            | true =>
              simp only [if_true]
              apply hsl.addNew (six := true) (pr := none) (st := .valid) hnd hfresh hfam (fun hh => by cases hh)
              · show putIPs (Slot.pop s true res.ips.length).ips _ = _
                rw [hsame.1]; exact putIPs_fresh hfresh
              · show (Slot.pop s true res.ips.length).eni ≠ none
                rw [hsame.2.1]; simp [hen]
              · simp only [if_true]; show (Slot.pop s true res.ips.length).plan4 = _; rw [hsame.2.2.1]
              · simp only [if_true]; simp only [if_true] at hlen; omega
            | false =>
              simp only [Bool.false_eq_true, if_false]
              apply hsl.addNew (six := false) (pr := none) (st := .valid) hnd hfresh hfam (fun hh => by cases hh)
              · show putIPs (Slot.pop s false res.ips.length).ips _ = _
                rw [hsame.1]; exact putIPs_fresh hfresh
              · show (Slot.pop s false res.ips.length).eni ≠ none
                rw [hsame.2.1]; simp [hen]
              · simp only [Bool.false_eq_true, if_false]; simp only [Bool.false_eq_true, if_false] at hlen; omega
              · simp only [Bool.false_eq_true, if_false]; show (Slot.pop s false res.ips.length).plan6 = _; rw [hsame.2.2.2]
        -- old entries are still there
        have hkeep : ∀ a ∈ s.ips, a ∈ (if six then { s.assigned six res with plan6 := 0 } else { s.assigned six res with plan4 := 0 }).ips := by
          intro a ha
          have : a ∈ (s.assigned six res).ips := by
            unfold Slot.assigned
            cases res.err with
            | some code =>
              simp only
              rw [(same_onError _ code).1]
              simp only
              rw [putIPs_fresh hfresh]; exact List.mem_append_left _ ha
            | none =>
              simp only
              rw [(same_pop s six res.ips.length).1, putIPs_fresh hfresh]; exact List.mem_append_left _ ha
          cases six <;> simpa using this
        refine ⟨?_, rfl⟩
        apply h.upd i
        · split
          · exact hok1.same (same_faHeadPurge _ _)
          · exact hok1
        · intro x _ _ a ha _ ho
          rw [hsdef'] at ha
          split
          · exact ⟨a, by rw [(same_faHeadPurge _ _).1]; exact hkeep a ha, rfl, ho⟩
          · exact ⟨a, hkeep a ha, rfl, ho⟩
  | release i eni pod ips =>
    simp only [Pool.step] at hs
    obtain ⟨hc, rfl⟩ := ite_some_eq hs
    simp only [Bool.and_eq_true, Bool.not_eq_true'] at hc
    exact ⟨h.release i eni pod ips hc.2, rfl⟩
  | dispose i n out =>
    simp only [Pool.step] at hs
    obtain ⟨hc, rfl⟩ := ite_some_eq hs
    exact ⟨h.dispose i n p.done out hc, rfl⟩
  | sync i remote =>
    simp only [Pool.step] at hs
    cases hs
    exact ⟨h.sync i remote, rfl⟩
  | fdHead i =>
    simp only [Pool.step] at hs
    cases hs
    exact ⟨h.updSame i _ (same_fdHead _ _), rfl⟩
  | fdDeleted i ok =>
    simp only [Pool.step] at hs
    cases hen : (p.slot i).eni with
    | none => rw [hen] at hs; cases hs
    | some e =>
      rw [hen] at hs
      simp only at hs
      obtain ⟨hc, rfl⟩ := ite_some_eq hs
      · simp only [Bool.and_eq_true] at hc
        have hsl : SlotOK p.cfg (p.slot i) := h.slotOK i
        generalize hsdef : p.slot i = s at *
        have hsdef' : slotAt p.slots i = s := hsdef
        refine ⟨?_, rfl⟩
        cases ok with
        | false =>
          apply h.updSame i
          rw [hsdef']
          simp only [Slot.deleted, Bool.false_eq_true, if_false]
          exact same_fdHead _ _
        | true =>
          -- nobody holds an address on the interface, so no reply relies on it
          have hnone : ∀ a ∈ s.ips, a.owner = none := by
            intro a ha
            have := hc.2
            unfold Slot.canDispose at this
            simp only [hen, Option.isNone_some, Bool.false_or, Bool.and_eq_true, Bool.not_eq_true', List.any_eq_false] at this
            have := this.1.1.1.1 a ha
            simpa [IP.inUse] using this
          apply h.upd i
          · rw [hsdef']
            apply SlotOK.same (s := s.deleted true) _ (same_fdHead _ _)
            simp only [Slot.deleted, if_true]
            exact ⟨by simp [Keys], by intro a ha; simp at ha, fun _ => rfl,
              by have := hsl.cap4; simp only [fam_nil, List.length_nil]; omega,
              by have := hsl.cap6; simp only [fam_nil, List.length_nil]; omega⟩
          · intro x _ _ a ha _ ho
            rw [hsdef'] at ha
            rw [hnone a ha] at ho; cases ho
  | fdUnassigned i ips ok toHead =>
    simp only [Pool.step] at hs
    cases hen : (p.slot i).eni with
    | none => rw [hen] at hs; cases hs
    | some e =>
      rw [hen] at hs
      simp only at hs
      obtain ⟨hc, rfl⟩ := ite_some_eq hs
      · have hsl : SlotOK p.cfg (p.slot i) := h.slotOK i
        generalize hsdef : p.slot i = s at *
        have hsdef' : slotAt p.slots i = s := hsdef
        refine ⟨?_, rfl⟩
        have hok1 : SlotOK p.cfg (s.unassigned ips ok) := by
          unfold Slot.unassigned
          split
          · exact ⟨hsl.keys.filter _, hsl.del.filter _, fun hn => by simp [hen] at hn,
              Nat.le_trans (Nat.add_le_add_right (fam_filter_len false s.ips _) _) hsl.cap4,
              Nat.le_trans (Nat.add_le_add_right (fam_filter_len true s.ips _) _) hsl.cap6⟩
          · exact hsl
        have hkeep : ∀ a ∈ s.ips, a.owner ≠ none → a ∈ (s.unassigned ips ok).ips := by
          intro a ha ho
          unfold Slot.unassigned
          split
          · simp only [removeIPs_eq, List.mem_filter, decide_eq_true_eq]
            refine ⟨ha, ?_⟩
            intro hi
            have := List.all_eq_true.mp hc a.ip hi
            simp only [List.any_eq_true, Bool.and_eq_true, beq_iff_eq, Bool.not_eq_true'] at this
            obtain ⟨b, hb, ⟨⟨⟨e1, _⟩, e3⟩, _⟩⟩ := this
            have := hsl.keys.eq hb ha e1
            subst this
            exact ho (by simpa [IP.inUse] using e3)
          · exact ha
        apply h.upd i
        · rw [hsdef']
          split
          · exact hok1.same (same_fdHead _ _)
          · exact hok1
        · intro x _ _ a ha _ ho
          rw [hsdef'] at ha
          rw [hsdef']
          have hk := hkeep a ha (by rw [ho]; simp)
          split
          · exact ⟨a, by rw [(same_fdHead _ _).1]; exact hk, rfl, ho⟩
          · exact ⟨a, hk, rfl, ho⟩
  | cloud eni add del gone =>
    simp only [Pool.step] at hs
    cases hs
    exact ⟨h, rfl⟩

end Terway.Pool

namespace Terway.Pool

/-- every state reachable from a fresh pool by any interleaving of lock regions satisfies the invariant -/
theorem Pool.Inv.run {p p' : Pool} (h : p.Inv) (hb : p.cfg.batch ≤ p.cfg.cap) (evs : List Ev) (hr : p.run evs = some p') :
    p'.Inv ∧ p'.cfg = p.cfg := by
  induction evs generalizing p with
  | nil => simp only [Pool.run] at hr; cases hr; exact ⟨h, rfl⟩
  | cons e rest ih =>
    simp only [Pool.run] at hr
    cases hs : p.step e with
    | none => rw [hs] at hr; cases hr
    | some q =>
      rw [hs] at hr
      simp only [Option.bind_some] at hr
      obtain ⟨hq, hc⟩ := h.step hb e hs
      obtain ⟨h1, h2⟩ := ih hq (hc ▸ hb) hr
      exact ⟨h1, h2.trans hc⟩

end Terway.Pool
