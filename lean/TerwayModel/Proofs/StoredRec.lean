import TerwayModel.Model.StoredRec
/-
Facts about the start-up filter over stored records (Model/StoredRec.lean).
-/
namespace Terway.Stored

theorem loop_succ (rc : Bool) (att : Attached) (f bound j : Nat) (rs : List Item) :
    loop rc att (f + 1) bound j rs =
      if j < (if rc then rs.length else bound) then
        match rs[j]? with
        | none => none
        | some it => if stale att it then loop rc att f bound (j + 1) (rs.eraseIdx j)
                     else loop rc att f bound (j + 1) rs
      else some rs := by
  rw [loop]; rfl

/-- with the bound re-read on every iteration the index is always inside the slice -/
theorem loop_recheck_some (att : Attached) : ∀ (fuel bound j : Nat) (rs : List Item),
    ∃ out, loop true att fuel bound j rs = some out := by
  intro fuel
  induction fuel with
  | zero => intro bound j rs; exact ⟨rs, rfl⟩
  | succ f ih =>
    intro bound j rs
    rw [loop_succ]
    by_cases hj : j < rs.length
    · rw [if_pos (by simpa using hj), List.getElem?_eq_getElem hj]
      simp only
      by_cases hst : stale att rs[j] = true
      · rw [if_pos hst]; exact ih bound (j + 1) _
      · rw [if_neg hst]; exact ih bound (j + 1) _
    · rw [if_neg (by simpa using hj)]; exact ⟨rs, rfl⟩

/-- whatever the loop shape: what comes out is a sub-list of what went in (nothing is invented or reordered) -/
theorem loop_sublist (rc : Bool) (att : Attached) : ∀ (fuel bound j : Nat) (rs out : List Item),
    loop rc att fuel bound j rs = some out → out.Sublist rs := by
  intro fuel
  induction fuel with
  | zero => intro bound j rs out h; simp only [loop, Option.some.injEq] at h; subst h; exact List.Sublist.refl _
  | succ f ih =>
    intro bound j rs out h
    rw [loop_succ] at h
    by_cases hlim : j < (if rc then rs.length else bound)
    · rw [if_pos hlim] at h
      cases hg : rs[j]? with
      | none => rw [hg] at h; cases h
      | some x =>
        rw [hg] at h
        simp only at h
        by_cases hst : stale att x = true
        · rw [if_pos hst] at h
          exact (ih bound (j + 1) _ out h).trans (List.eraseIdx_sublist rs j)
        · rw [if_neg hst] at h
          exact ih bound (j + 1) rs out h
    · rw [if_neg hlim] at h
      simp only [Option.some.injEq] at h; subst h; exact List.Sublist.refl _

/-- … and only stale items are dropped: an item whose interface is still attached (or that is not an `eniIp`
    item at all) is handed on -/
theorem loop_keeps (rc : Bool) (att : Attached) : ∀ (fuel bound j : Nat) (rs out : List Item),
    loop rc att fuel bound j rs = some out → ∀ it ∈ rs, stale att it = false → it ∈ out := by
  intro fuel
  induction fuel with
  | zero => intro bound j rs out h it hit _; simp only [loop, Option.some.injEq] at h; subst h; exact hit
  | succ f ih =>
    intro bound j rs out h it hit hs
    rw [loop_succ] at h
    by_cases hlim : j < (if rc then rs.length else bound)
    · rw [if_pos hlim] at h
      cases hg : rs[j]? with
      | none => rw [hg] at h; cases h
      | some x =>
        rw [hg] at h
        simp only at h
        by_cases hst : stale att x = true
        · rw [if_pos hst] at h
          refine ih bound (j + 1) _ out h it ?_ hs
          obtain ⟨hjl, hxe⟩ := List.getElem?_eq_some_iff.mp hg
          rw [List.mem_eraseIdx_iff_getElem]
          obtain ⟨k, hk, hke⟩ := List.mem_iff_getElem.mp hit
          refine ⟨k, hk, ?_, hke⟩
          intro hkj
          subst hkj
          rw [hxe] at hke
          subst hke
          rw [hst] at hs
          cases hs
        · rw [if_neg hst] at h
          exact ih bound (j + 1) rs out h it hit hs
    · rw [if_neg hlim] at h
      simp only [Option.some.injEq] at h; subst h; exact hit

end Terway.Stored
