import TerwayModel.Model.Agent
/-
Invariant of the node agent's reporting (Model/Agent.lean): a `deleted` stamp exists only for a pod UID whose CNI
DEL the daemon processed or that the API server reported absent during a clean-up pass.
-/
namespace Terway.Agent

def Inv (s : St) : Prop :=
  (∀ e ∈ s.rt, e.deleted = true → e.uid ∈ s.dels ∨ e.uid ∈ s.verified) ∧ (∀ p ∈ s.pending, p.1 ∈ s.dels)

theorem setDeleted_mem {rt : List Entry} {uid : Nat} {okID : Bool} {e : Entry} (h : e ∈ setDeleted rt uid okID)
    (hd : e.deleted = true) : e.uid = uid ∨ (e ∈ rt ∧ e.deleted = true) := by
  unfold setDeleted at h
  split at h
  · simp only [List.mem_map] at h
    obtain ⟨e0, he0, rfl⟩ := h
    by_cases hu : e0.uid = uid
    · left; simp [hu]
    · simp only [hu, if_false] at hd ⊢; exact .inr ⟨he0, hd⟩
  · simp only [List.mem_append, List.mem_singleton] at h
    rcases h with h | rfl
    · exact .inr ⟨h, hd⟩
    · exact .inl rfl

theorem foldl_setDeleted_mem (ps : List (Nat × Bool)) : ∀ (rt : List Entry) (e : Entry),
    e ∈ ps.foldl (fun rt p => setDeleted rt p.1 p.2) rt → e.deleted = true →
    (∃ p ∈ ps, p.1 = e.uid) ∨ (e ∈ rt ∧ e.deleted = true) := by
  induction ps with
  | nil => intro rt e h hd; exact .inr ⟨h, hd⟩
  | cons p ps ih =>
    intro rt e h hd
    simp only [List.foldl_cons] at h
    rcases ih _ e h hd with ⟨q, hq, hqe⟩ | ⟨hm, _⟩
    · exact .inl ⟨q, List.mem_cons_of_mem _ hq, hqe⟩
    · rcases setDeleted_mem hm hd with hu | hr
      · exact .inl ⟨p, List.mem_cons_self, hu.symm⟩
      · exact .inr hr

theorem Inv.init : Inv {} := by
  constructor
  · intro e he; simp at he
  · intro p hp; simp at hp

theorem Inv.step {s : St} (h : Inv s) (ev : Ev) : Inv (step s ev) := by
  obtain ⟨h1, h2⟩ := h
  cases ev with
  | del uid okID =>
    refine ⟨?_, ?_⟩
    · intro e he hd
      rcases h1 e he hd with h | h
      · exact .inl (List.mem_cons_of_mem _ h)
      · exact .inr h
    · intro p hp
      simp only [Agent.step] at hp ⊢
      split at hp
      · simp only [List.mem_map] at hp
        obtain ⟨q, hq, rfl⟩ := hp
        by_cases hu : q.1 = uid
        · simp [hu]
        · simp only [hu, if_false]; exact List.mem_cons_of_mem _ (h2 q hq)
      · simp only [List.mem_append, List.mem_singleton] at hp
        rcases hp with hp | rfl
        · exact List.mem_cons_of_mem _ (h2 p hp)
        · exact List.mem_cons_self
  | sync ok =>
    simp only [Agent.step]
    split
    · refine ⟨?_, by intro p hp; cases hp⟩
      intro e he hd
      rcases foldl_setDeleted_mem _ _ e he hd with ⟨p, hp, hpe⟩ | ⟨hm, hd'⟩
      · exact .inl (hpe ▸ h2 p hp)
      · exact h1 e hm hd'
    · exact ⟨h1, h2⟩
  | back inUsed ok =>
    simp only [Agent.step]
    split
    · refine ⟨?_, h2⟩
      intro e he hd
      simp only [backRt, List.mem_append, List.mem_filter, List.mem_map] at he
      rcases he with ⟨hm, _⟩ | ⟨u, _, rfl⟩
      · exact h1 e hm hd
      · simp at hd
    · exact ⟨h1, h2⟩
  | clean l v ok =>
    simp only [Agent.step]
    split
    · refine ⟨?_, h2⟩
      intro e he hd
      simp only [List.mem_map] at he
      obtain ⟨e0, he0, rfl⟩ := he
      by_cases hc : cleanHits l v e0 = true
      · simp only [hc, if_true]
        refine .inr (List.mem_append_left _ ?_)
        simp only [List.mem_map, List.mem_filter]
        unfold cleanHits at hc
        simp only [Bool.and_eq_true] at hc
        exact ⟨e0, ⟨⟨he0, by simp only [Bool.and_eq_true]; exact hc.1⟩, hc.2⟩, rfl⟩
      · simp only [hc] at hd ⊢
        rcases h1 e0 he0 hd with h | h
        · exact .inl h
        · exact .inr (List.mem_append_right _ h)
    · refine ⟨?_, h2⟩
      intro e he hd
      rcases h1 e he hd with h | h
      · exact .inl h
      · exact .inr (List.mem_append_right _ h)
  | age =>
    refine ⟨?_, h2⟩
    intro e he hd
    simp only [Agent.step, List.mem_map] at he
    obtain ⟨e0, he0, rfl⟩ := he
    exact h1 e0 he0 hd

theorem Inv.run {s : St} (h : Inv s) (evs : List Ev) : Inv (run s evs) := by
  induction evs generalizing s with
  | nil => exact h
  | cons e es ih => exact ih (h.step e)

end Terway.Agent
