import TerwayModel.Proofs.PodEni
/-
Safety invariant of the PodENI lifecycle model: a record that is being detached or deleted names a pod
instance that is not running, and what each actor has decided but not yet written stays justified.
(Generated layout: one definition per fact, one preservation lemma per fact and actor.)
-/
namespace Terway.PE

theorem Phase.cases (p : Phase) :
    p = .initial ∨ p = .bind ∨ p = .binding ∨ p = .unbind ∨ p = .detaching ∨ p = .deleting := by
  cases p <;> simp

theorem requires_false {p : PodSeen} {ne : Bool} (h : p.requires ne = false) :
    p = .absent ∨ ∃ u ex n, p = .present u ex n ∧ (ex = true ∨ (n = false ∧ ne = false)) := by
  cases p with
  | absent => exact .inl rfl
  | present u ex n =>
    refine .inr ⟨u, ex, n, rfl, ?_⟩
    cases ex <;> cases n <;> cases ne <;> simp_all [PodSeen.requires]

/-- a record on its way out names a pod instance that is not running -/
def J2 (s : St) : Prop :=
  ∀ c, s.rcd = some c → (c.phase = .detaching ∨ c.phase = .deleting ∨ c.del = true) → NotRunning s c.uid

/-- the pod instance a record names needs the record -/
def J3 (s : St) : Prop :=
  ∀ c q, s.rcd = some c → s.pod = some q → c.uid = q.uid → q.needs = true

/-- podDelete / pending unconditional delete: the record names an instance that is not running -/
def PDel (s : St) : Prop :=
  (s.p = .del ∨ s.p = .delRec) → ∀ c, s.rcd = some c → NotRunning s c.uid

/-- podCreate: the instance it saw is the newest so far, and the record names that one or an older one -/
def PCre (s : St) : Prop :=
  ∀ u, s.p = .cre u → (∀ c, s.rcd = some c → c.uid ≤ u) ∧ (∀ q, s.pod = some q → u ≤ q.uid)

/-- a pending status write: if the record is still the one read, its instance is not running -/
def PUpd (s : St) : Prop :=
  ∀ v ph, s.p = .upd v ph → (ph = .detaching ∨ ph = .deleting) ∧ ∀ c, s.rcd = some c → c.ver = v → NotRunning s c.uid ∧ (ph = .detaching → c.phase ≠ .unbind ∧ c.phase ≠ .detaching ∧ c.phase ≠ .deleting)

/-- reConfig: if the record is still the one read, it is unbound and owned by the uid read -/
def PRec (s : St) : Prop :=
  ∀ u v ru, s.p = .reconf u v ru → ∀ c, s.rcd = some c → c.ver = v → c.phase = .unbind ∧ c.del = false ∧ c.uid = ru

/-- detach / tear-down in flight: the record is still that one and still on its way out -/
def EDet (s : St) : Prop :=
  ∀ r tear, s.e = .detach r tear → (tear = true → r.del = true) ∧ (tear = false → r.phase = .detaching ∧ r.del = false) ∧ s.rcd ≠ none ∧ ∀ c, s.rcd = some c → c.allocs = r.allocs ∧ c.uid = r.uid ∧ (c.del = true ∨ c.phase = .detaching ∨ c.phase = .deleting) ∧ (r.del = true → c.del = true)

/-- attach in flight: the record read was initial or binding -/
def EAtt (s : St) : Prop :=
  ∀ r fn i f, s.e = .attach r fn i f → (r.phase = .initial ∨ r.phase = .binding) ∧ r.del = false

/-- pending delete of a Deleting record: it still is -/
def EDel (s : St) : Prop :=
  s.e = .delRec → s.rcd ≠ none ∧ ∀ c, s.rcd = some c → c.phase = .deleting ∨ c.del = true

/-- the collector found the pod absent or not needing the record: if the record is still the one listed, its instance is not running -/
def GSeen (s : St) : Prop :=
  ∀ r p ne, s.g = .seen r p ne → p.requires ne = false → ∀ c, s.rcd = some c → c.ver = r.ver → NotRunning s c.uid

structure Inv2 (s : St) : Prop where
  fJ2 : J2 s
  fJ3 : J3 s
  fPDel : PDel s
  fPCre : PCre s
  fPUpd : PUpd s
  fPRec : PRec s
  fEDet : EDet s
  fEAtt : EAtt s
  fEDel : EDel s
  fGSeen : GSeen s

theorem Inv2.init : Inv2 {} := by
  constructor <;> simp [J2, J3, PDel, PCre, PUpd, PRec, EDet, EAtt, EDel, GSeen]

set_option maxHeartbeats 1000000 in
theorem J2.stepEnv {s t : St} {ev : Ev} (h1 : Inv1 s) (h : Inv2 s) (hs : PE.stepEnv s ev = some t) : J2 t := by
  obtain ⟨a1, a2, a3, a4, a4b, a5, a5b, a5c, a6, a6b, a7, a7b⟩ := h1
  obtain ⟨b0, b1, b2, b3, b4, b5, b6, b7, b8, b9⟩ := h
  revert hs
  fun_cases PE.stepEnv s ev <;> intro hs <;> (first | cases hs | skip)
  all_goals (try simp only [bump_some _ _ _ (by assumption : s.rcd = some _)])
  all_goals (first | assumption | grind [SnapOK, pStatusOK_true, markDel_uid, markDel_phase, markDel_allocs, markDel_del, markDel_ver, markDel_of_del, J2, J3, PDel, PCre, PUpd, PRec, EDet, EAtt, EDel, GSeen, NotRunning, cases Phase])

set_option maxHeartbeats 1000000 in
theorem J2.stepP {s t : St} {ev : Ev} (h1 : Inv1 s) (h : Inv2 s) (hs : PE.stepP s ev = some t) : J2 t := by
  obtain ⟨a1, a2, a3, a4, a4b, a5, a5b, a5c, a6, a6b, a7, a7b⟩ := h1
  obtain ⟨b0, b1, b2, b3, b4, b5, b6, b7, b8, b9⟩ := h
  revert hs
  fun_cases PE.stepP s ev <;> intro hs <;> (first | cases hs | skip)
  all_goals (try simp only [deleteRec_some _ _ (by assumption : s.rcd = some _), bindRec, bump_some _ _ _ (by assumption : s.rcd = some _)])
  all_goals (first | assumption | grind [SnapOK, pStatusOK_true, markDel_uid, markDel_phase, markDel_allocs, markDel_del, markDel_ver, markDel_of_del, J2, J3, PDel, PCre, PUpd, PRec, EDet, EAtt, EDel, GSeen, NotRunning, cases Phase, pAfterDel, pAfterCre, podMatches_live, podMatches_absent, podMatches_exited, podMatches_term])

set_option maxHeartbeats 1000000 in
theorem J2.stepE {s t : St} {ev : Ev} (h1 : Inv1 s) (h : Inv2 s) (hs : PE.stepE s ev = some t) : J2 t := by
  obtain ⟨a1, a2, a3, a4, a4b, a5, a5b, a5c, a6, a6b, a7, a7b⟩ := h1
  obtain ⟨b0, b1, b2, b3, b4, b5, b6, b7, b8, b9⟩ := h
  revert hs
  fun_cases PE.stepE s ev <;> intro hs <;> (first | cases hs | skip)
  all_goals (try simp only [deleteRec_some _ _ (by assumption : s.rcd = some _), bindRec, bump_some _ _ _ (by assumption : s.rcd = some _)])
  all_goals (first | assumption | grind [SnapOK, pStatusOK_true, markDel_uid, markDel_phase, markDel_allocs, markDel_del, markDel_ver, markDel_of_del, J2, J3, PDel, PCre, PUpd, PRec, EDet, EAtt, EDel, GSeen, NotRunning, cases Phase, podMatches_live, podMatches_absent, podMatches_exited, podMatches_term])

set_option maxHeartbeats 1000000 in
theorem J2.stepG {s t : St} {ev : Ev} (h1 : Inv1 s) (h : Inv2 s) (hs : PE.stepG s ev = some t) : J2 t := by
  obtain ⟨a1, a2, a3, a4, a4b, a5, a5b, a5c, a6, a6b, a7, a7b⟩ := h1
  obtain ⟨b0, b1, b2, b3, b4, b5, b6, b7, b8, b9⟩ := h
  revert hs
  fun_cases PE.stepG s ev <;> intro hs <;> (first | cases hs | skip)
  all_goals (try simp only [bump_some _ _ _ (by assumption : s.rcd = some _)])
  all_goals (first | assumption | grind [SnapOK, pStatusOK_true, markDel_uid, markDel_phase, markDel_allocs, markDel_del, markDel_ver, markDel_of_del, J2, J3, PDel, PCre, PUpd, PRec, EDet, EAtt, EDel, GSeen, NotRunning, cases Phase, seenMatches_absent, seenMatches_present, requires_false])

set_option maxHeartbeats 1000000 in
theorem J2.stepL {s t : St} {ev : Ev} (h1 : Inv1 s) (h : Inv2 s) (hs : PE.stepL s ev = some t) : J2 t := by
  obtain ⟨a1, a2, a3, a4, a4b, a5, a5b, a5c, a6, a6b, a7, a7b⟩ := h1
  obtain ⟨b0, b1, b2, b3, b4, b5, b6, b7, b8, b9⟩ := h
  revert hs
  fun_cases PE.stepL s ev <;> intro hs <;> (first | cases hs | skip)
  all_goals (try simp only [bump_some _ _ _ (by assumption : s.rcd = some _)])
  all_goals (first | assumption | grind [SnapOK, pStatusOK_true, markDel_uid, markDel_phase, markDel_allocs, markDel_del, markDel_ver, markDel_of_del, J2, J3, PDel, PCre, PUpd, PRec, EDet, EAtt, EDel, GSeen, NotRunning, cases Phase])

set_option maxHeartbeats 1000000 in
theorem J3.stepEnv {s t : St} {ev : Ev} (h1 : Inv1 s) (h : Inv2 s) (hs : PE.stepEnv s ev = some t) : J3 t := by
  obtain ⟨a1, a2, a3, a4, a4b, a5, a5b, a5c, a6, a6b, a7, a7b⟩ := h1
  obtain ⟨b0, b1, b2, b3, b4, b5, b6, b7, b8, b9⟩ := h
  revert hs
  fun_cases PE.stepEnv s ev <;> intro hs <;> (first | cases hs | skip)
  all_goals (try simp only [bump_some _ _ _ (by assumption : s.rcd = some _)])
  all_goals (first | assumption | grind [SnapOK, pStatusOK_true, markDel_uid, markDel_phase, markDel_allocs, markDel_del, markDel_ver, markDel_of_del, J2, J3, PDel, PCre, PUpd, PRec, EDet, EAtt, EDel, GSeen, NotRunning, cases Phase])

set_option maxHeartbeats 1000000 in
theorem J3.stepP {s t : St} {ev : Ev} (h1 : Inv1 s) (h : Inv2 s) (hs : PE.stepP s ev = some t) : J3 t := by
  obtain ⟨a1, a2, a3, a4, a4b, a5, a5b, a5c, a6, a6b, a7, a7b⟩ := h1
  obtain ⟨b0, b1, b2, b3, b4, b5, b6, b7, b8, b9⟩ := h
  revert hs
  fun_cases PE.stepP s ev <;> intro hs <;> (first | cases hs | skip)
  all_goals (try simp only [deleteRec_some _ _ (by assumption : s.rcd = some _), bindRec, bump_some _ _ _ (by assumption : s.rcd = some _)])
  all_goals (first | assumption | grind [SnapOK, pStatusOK_true, markDel_uid, markDel_phase, markDel_allocs, markDel_del, markDel_ver, markDel_of_del, J2, J3, PDel, PCre, PUpd, PRec, EDet, EAtt, EDel, GSeen, NotRunning, cases Phase, pAfterDel, pAfterCre, podMatches_live, podMatches_absent, podMatches_exited, podMatches_term])

set_option maxHeartbeats 1000000 in
theorem J3.stepE {s t : St} {ev : Ev} (h1 : Inv1 s) (h : Inv2 s) (hs : PE.stepE s ev = some t) : J3 t := by
  obtain ⟨a1, a2, a3, a4, a4b, a5, a5b, a5c, a6, a6b, a7, a7b⟩ := h1
  obtain ⟨b0, b1, b2, b3, b4, b5, b6, b7, b8, b9⟩ := h
  revert hs
  fun_cases PE.stepE s ev <;> intro hs <;> (first | cases hs | skip)
  all_goals (try simp only [deleteRec_some _ _ (by assumption : s.rcd = some _), bindRec, bump_some _ _ _ (by assumption : s.rcd = some _)])
  all_goals (first | assumption | grind [SnapOK, pStatusOK_true, markDel_uid, markDel_phase, markDel_allocs, markDel_del, markDel_ver, markDel_of_del, J2, J3, PDel, PCre, PUpd, PRec, EDet, EAtt, EDel, GSeen, NotRunning, cases Phase, podMatches_live, podMatches_absent, podMatches_exited, podMatches_term])

set_option maxHeartbeats 1000000 in
theorem J3.stepG {s t : St} {ev : Ev} (h1 : Inv1 s) (h : Inv2 s) (hs : PE.stepG s ev = some t) : J3 t := by
  obtain ⟨a1, a2, a3, a4, a4b, a5, a5b, a5c, a6, a6b, a7, a7b⟩ := h1
  obtain ⟨b0, b1, b2, b3, b4, b5, b6, b7, b8, b9⟩ := h
  revert hs
  fun_cases PE.stepG s ev <;> intro hs <;> (first | cases hs | skip)
  all_goals (try simp only [bump_some _ _ _ (by assumption : s.rcd = some _)])
  all_goals (first | assumption | grind [SnapOK, pStatusOK_true, markDel_uid, markDel_phase, markDel_allocs, markDel_del, markDel_ver, markDel_of_del, J2, J3, PDel, PCre, PUpd, PRec, EDet, EAtt, EDel, GSeen, NotRunning, cases Phase, seenMatches_absent, seenMatches_present, requires_false])

set_option maxHeartbeats 1000000 in
theorem J3.stepL {s t : St} {ev : Ev} (h1 : Inv1 s) (h : Inv2 s) (hs : PE.stepL s ev = some t) : J3 t := by
  obtain ⟨a1, a2, a3, a4, a4b, a5, a5b, a5c, a6, a6b, a7, a7b⟩ := h1
  obtain ⟨b0, b1, b2, b3, b4, b5, b6, b7, b8, b9⟩ := h
  revert hs
  fun_cases PE.stepL s ev <;> intro hs <;> (first | cases hs | skip)
  all_goals (try simp only [bump_some _ _ _ (by assumption : s.rcd = some _)])
  all_goals (first | assumption | grind [SnapOK, pStatusOK_true, markDel_uid, markDel_phase, markDel_allocs, markDel_del, markDel_ver, markDel_of_del, J2, J3, PDel, PCre, PUpd, PRec, EDet, EAtt, EDel, GSeen, NotRunning, cases Phase])

set_option maxHeartbeats 1000000 in
theorem PDel.stepEnv {s t : St} {ev : Ev} (h1 : Inv1 s) (h : Inv2 s) (hs : PE.stepEnv s ev = some t) : PDel t := by
  obtain ⟨a1, a2, a3, a4, a4b, a5, a5b, a5c, a6, a6b, a7, a7b⟩ := h1
  obtain ⟨b0, b1, b2, b3, b4, b5, b6, b7, b8, b9⟩ := h
  revert hs
  fun_cases PE.stepEnv s ev <;> intro hs <;> (first | cases hs | skip)
  all_goals (try simp only [bump_some _ _ _ (by assumption : s.rcd = some _)])
  all_goals (first | assumption | grind [SnapOK, pStatusOK_true, markDel_uid, markDel_phase, markDel_allocs, markDel_del, markDel_ver, markDel_of_del, J2, J3, PDel, PCre, PUpd, PRec, EDet, EAtt, EDel, GSeen, NotRunning, cases Phase])

set_option maxHeartbeats 1000000 in
theorem PDel.stepP {s t : St} {ev : Ev} (h1 : Inv1 s) (h : Inv2 s) (hs : PE.stepP s ev = some t) : PDel t := by
  obtain ⟨a1, a2, a3, a4, a4b, a5, a5b, a5c, a6, a6b, a7, a7b⟩ := h1
  obtain ⟨b0, b1, b2, b3, b4, b5, b6, b7, b8, b9⟩ := h
  revert hs
  fun_cases PE.stepP s ev <;> intro hs <;> (first | cases hs | skip)
  all_goals (try simp only [deleteRec_some _ _ (by assumption : s.rcd = some _), bindRec, bump_some _ _ _ (by assumption : s.rcd = some _)])
  all_goals (first | assumption | grind [SnapOK, pStatusOK_true, markDel_uid, markDel_phase, markDel_allocs, markDel_del, markDel_ver, markDel_of_del, J2, J3, PDel, PCre, PUpd, PRec, EDet, EAtt, EDel, GSeen, NotRunning, cases Phase, pAfterDel, pAfterCre, podMatches_live, podMatches_absent, podMatches_exited, podMatches_term])

set_option maxHeartbeats 1000000 in
theorem PDel.stepE {s t : St} {ev : Ev} (h1 : Inv1 s) (h : Inv2 s) (hs : PE.stepE s ev = some t) : PDel t := by
  obtain ⟨a1, a2, a3, a4, a4b, a5, a5b, a5c, a6, a6b, a7, a7b⟩ := h1
  obtain ⟨b0, b1, b2, b3, b4, b5, b6, b7, b8, b9⟩ := h
  revert hs
  fun_cases PE.stepE s ev <;> intro hs <;> (first | cases hs | skip)
  all_goals (try simp only [deleteRec_some _ _ (by assumption : s.rcd = some _), bindRec, bump_some _ _ _ (by assumption : s.rcd = some _)])
  all_goals (first | assumption | grind [SnapOK, pStatusOK_true, markDel_uid, markDel_phase, markDel_allocs, markDel_del, markDel_ver, markDel_of_del, J2, J3, PDel, PCre, PUpd, PRec, EDet, EAtt, EDel, GSeen, NotRunning, cases Phase, podMatches_live, podMatches_absent, podMatches_exited, podMatches_term])

set_option maxHeartbeats 1000000 in
theorem PDel.stepG {s t : St} {ev : Ev} (h1 : Inv1 s) (h : Inv2 s) (hs : PE.stepG s ev = some t) : PDel t := by
  obtain ⟨a1, a2, a3, a4, a4b, a5, a5b, a5c, a6, a6b, a7, a7b⟩ := h1
  obtain ⟨b0, b1, b2, b3, b4, b5, b6, b7, b8, b9⟩ := h
  revert hs
  fun_cases PE.stepG s ev <;> intro hs <;> (first | cases hs | skip)
  all_goals (try simp only [bump_some _ _ _ (by assumption : s.rcd = some _)])
  all_goals (first | assumption | grind [SnapOK, pStatusOK_true, markDel_uid, markDel_phase, markDel_allocs, markDel_del, markDel_ver, markDel_of_del, J2, J3, PDel, PCre, PUpd, PRec, EDet, EAtt, EDel, GSeen, NotRunning, cases Phase, seenMatches_absent, seenMatches_present, requires_false])

set_option maxHeartbeats 1000000 in
theorem PDel.stepL {s t : St} {ev : Ev} (h1 : Inv1 s) (h : Inv2 s) (hs : PE.stepL s ev = some t) : PDel t := by
  obtain ⟨a1, a2, a3, a4, a4b, a5, a5b, a5c, a6, a6b, a7, a7b⟩ := h1
  obtain ⟨b0, b1, b2, b3, b4, b5, b6, b7, b8, b9⟩ := h
  revert hs
  fun_cases PE.stepL s ev <;> intro hs <;> (first | cases hs | skip)
  all_goals (try simp only [bump_some _ _ _ (by assumption : s.rcd = some _)])
  all_goals (first | assumption | grind [SnapOK, pStatusOK_true, markDel_uid, markDel_phase, markDel_allocs, markDel_del, markDel_ver, markDel_of_del, J2, J3, PDel, PCre, PUpd, PRec, EDet, EAtt, EDel, GSeen, NotRunning, cases Phase])

set_option maxHeartbeats 1000000 in
theorem PCre.stepEnv {s t : St} {ev : Ev} (h1 : Inv1 s) (h : Inv2 s) (hs : PE.stepEnv s ev = some t) : PCre t := by
  obtain ⟨a1, a2, a3, a4, a4b, a5, a5b, a5c, a6, a6b, a7, a7b⟩ := h1
  obtain ⟨b0, b1, b2, b3, b4, b5, b6, b7, b8, b9⟩ := h
  revert hs
  fun_cases PE.stepEnv s ev <;> intro hs <;> (first | cases hs | skip)
  all_goals (try simp only [bump_some _ _ _ (by assumption : s.rcd = some _)])
  all_goals (first | assumption | grind [SnapOK, pStatusOK_true, markDel_uid, markDel_phase, markDel_allocs, markDel_del, markDel_ver, markDel_of_del, J2, J3, PDel, PCre, PUpd, PRec, EDet, EAtt, EDel, GSeen, NotRunning, cases Phase])

set_option maxHeartbeats 1000000 in
theorem PCre.stepP {s t : St} {ev : Ev} (h1 : Inv1 s) (h : Inv2 s) (hs : PE.stepP s ev = some t) : PCre t := by
  obtain ⟨a1, a2, a3, a4, a4b, a5, a5b, a5c, a6, a6b, a7, a7b⟩ := h1
  obtain ⟨b0, b1, b2, b3, b4, b5, b6, b7, b8, b9⟩ := h
  revert hs
  fun_cases PE.stepP s ev <;> intro hs <;> (first | cases hs | skip)
  all_goals (try simp only [deleteRec_some _ _ (by assumption : s.rcd = some _), bindRec, bump_some _ _ _ (by assumption : s.rcd = some _)])
  all_goals (first | assumption | grind [SnapOK, pStatusOK_true, markDel_uid, markDel_phase, markDel_allocs, markDel_del, markDel_ver, markDel_of_del, J2, J3, PDel, PCre, PUpd, PRec, EDet, EAtt, EDel, GSeen, NotRunning, cases Phase, pAfterDel, pAfterCre, podMatches_live, podMatches_absent, podMatches_exited, podMatches_term])

set_option maxHeartbeats 1000000 in
theorem PCre.stepE {s t : St} {ev : Ev} (h1 : Inv1 s) (h : Inv2 s) (hs : PE.stepE s ev = some t) : PCre t := by
  obtain ⟨a1, a2, a3, a4, a4b, a5, a5b, a5c, a6, a6b, a7, a7b⟩ := h1
  obtain ⟨b0, b1, b2, b3, b4, b5, b6, b7, b8, b9⟩ := h
  revert hs
  fun_cases PE.stepE s ev <;> intro hs <;> (first | cases hs | skip)
  all_goals (try simp only [deleteRec_some _ _ (by assumption : s.rcd = some _), bindRec, bump_some _ _ _ (by assumption : s.rcd = some _)])
  all_goals (first | assumption | grind [SnapOK, pStatusOK_true, markDel_uid, markDel_phase, markDel_allocs, markDel_del, markDel_ver, markDel_of_del, J2, J3, PDel, PCre, PUpd, PRec, EDet, EAtt, EDel, GSeen, NotRunning, cases Phase, podMatches_live, podMatches_absent, podMatches_exited, podMatches_term])

set_option maxHeartbeats 1000000 in
theorem PCre.stepG {s t : St} {ev : Ev} (h1 : Inv1 s) (h : Inv2 s) (hs : PE.stepG s ev = some t) : PCre t := by
  obtain ⟨a1, a2, a3, a4, a4b, a5, a5b, a5c, a6, a6b, a7, a7b⟩ := h1
  obtain ⟨b0, b1, b2, b3, b4, b5, b6, b7, b8, b9⟩ := h
  revert hs
  fun_cases PE.stepG s ev <;> intro hs <;> (first | cases hs | skip)
  all_goals (try simp only [bump_some _ _ _ (by assumption : s.rcd = some _)])
  all_goals (first | assumption | grind [SnapOK, pStatusOK_true, markDel_uid, markDel_phase, markDel_allocs, markDel_del, markDel_ver, markDel_of_del, J2, J3, PDel, PCre, PUpd, PRec, EDet, EAtt, EDel, GSeen, NotRunning, cases Phase, seenMatches_absent, seenMatches_present, requires_false])

set_option maxHeartbeats 1000000 in
theorem PCre.stepL {s t : St} {ev : Ev} (h1 : Inv1 s) (h : Inv2 s) (hs : PE.stepL s ev = some t) : PCre t := by
  obtain ⟨a1, a2, a3, a4, a4b, a5, a5b, a5c, a6, a6b, a7, a7b⟩ := h1
  obtain ⟨b0, b1, b2, b3, b4, b5, b6, b7, b8, b9⟩ := h
  revert hs
  fun_cases PE.stepL s ev <;> intro hs <;> (first | cases hs | skip)
  all_goals (try simp only [bump_some _ _ _ (by assumption : s.rcd = some _)])
  all_goals (first | assumption | grind [SnapOK, pStatusOK_true, markDel_uid, markDel_phase, markDel_allocs, markDel_del, markDel_ver, markDel_of_del, J2, J3, PDel, PCre, PUpd, PRec, EDet, EAtt, EDel, GSeen, NotRunning, cases Phase])

set_option maxHeartbeats 1000000 in
theorem PUpd.stepEnv {s t : St} {ev : Ev} (h1 : Inv1 s) (h : Inv2 s) (hs : PE.stepEnv s ev = some t) : PUpd t := by
  obtain ⟨a1, a2, a3, a4, a4b, a5, a5b, a5c, a6, a6b, a7, a7b⟩ := h1
  obtain ⟨b0, b1, b2, b3, b4, b5, b6, b7, b8, b9⟩ := h
  revert hs
  fun_cases PE.stepEnv s ev <;> intro hs <;> (first | cases hs | skip)
  all_goals (try simp only [bump_some _ _ _ (by assumption : s.rcd = some _)])
  all_goals (first | assumption | grind [SnapOK, pStatusOK_true, markDel_uid, markDel_phase, markDel_allocs, markDel_del, markDel_ver, markDel_of_del, J2, J3, PDel, PCre, PUpd, PRec, EDet, EAtt, EDel, GSeen, NotRunning, cases Phase])

set_option maxHeartbeats 1000000 in
theorem PUpd.stepP {s t : St} {ev : Ev} (h1 : Inv1 s) (h : Inv2 s) (hs : PE.stepP s ev = some t) : PUpd t := by
  obtain ⟨a1, a2, a3, a4, a4b, a5, a5b, a5c, a6, a6b, a7, a7b⟩ := h1
  obtain ⟨b0, b1, b2, b3, b4, b5, b6, b7, b8, b9⟩ := h
  revert hs
  fun_cases PE.stepP s ev <;> intro hs <;> (first | cases hs | skip)
  all_goals (try simp only [deleteRec_some _ _ (by assumption : s.rcd = some _), bindRec, bump_some _ _ _ (by assumption : s.rcd = some _)])
  all_goals (first | assumption | grind [SnapOK, pStatusOK_true, markDel_uid, markDel_phase, markDel_allocs, markDel_del, markDel_ver, markDel_of_del, J2, J3, PDel, PCre, PUpd, PRec, EDet, EAtt, EDel, GSeen, NotRunning, cases Phase, pAfterDel, pAfterCre, podMatches_live, podMatches_absent, podMatches_exited, podMatches_term])

set_option maxHeartbeats 1000000 in
theorem PUpd.stepE {s t : St} {ev : Ev} (h1 : Inv1 s) (h : Inv2 s) (hs : PE.stepE s ev = some t) : PUpd t := by
  obtain ⟨a1, a2, a3, a4, a4b, a5, a5b, a5c, a6, a6b, a7, a7b⟩ := h1
  obtain ⟨b0, b1, b2, b3, b4, b5, b6, b7, b8, b9⟩ := h
  revert hs
  fun_cases PE.stepE s ev <;> intro hs <;> (first | cases hs | skip)
  all_goals (try simp only [deleteRec_some _ _ (by assumption : s.rcd = some _), bindRec, bump_some _ _ _ (by assumption : s.rcd = some _)])
  all_goals (first | assumption | grind [SnapOK, pStatusOK_true, markDel_uid, markDel_phase, markDel_allocs, markDel_del, markDel_ver, markDel_of_del, J2, J3, PDel, PCre, PUpd, PRec, EDet, EAtt, EDel, GSeen, NotRunning, cases Phase, podMatches_live, podMatches_absent, podMatches_exited, podMatches_term])

set_option maxHeartbeats 1000000 in
theorem PUpd.stepG {s t : St} {ev : Ev} (h1 : Inv1 s) (h : Inv2 s) (hs : PE.stepG s ev = some t) : PUpd t := by
  obtain ⟨a1, a2, a3, a4, a4b, a5, a5b, a5c, a6, a6b, a7, a7b⟩ := h1
  obtain ⟨b0, b1, b2, b3, b4, b5, b6, b7, b8, b9⟩ := h
  revert hs
  fun_cases PE.stepG s ev <;> intro hs <;> (first | cases hs | skip)
  all_goals (try simp only [bump_some _ _ _ (by assumption : s.rcd = some _)])
  all_goals (first | assumption | grind [SnapOK, pStatusOK_true, markDel_uid, markDel_phase, markDel_allocs, markDel_del, markDel_ver, markDel_of_del, J2, J3, PDel, PCre, PUpd, PRec, EDet, EAtt, EDel, GSeen, NotRunning, cases Phase, seenMatches_absent, seenMatches_present, requires_false])

set_option maxHeartbeats 1000000 in
theorem PUpd.stepL {s t : St} {ev : Ev} (h1 : Inv1 s) (h : Inv2 s) (hs : PE.stepL s ev = some t) : PUpd t := by
  obtain ⟨a1, a2, a3, a4, a4b, a5, a5b, a5c, a6, a6b, a7, a7b⟩ := h1
  obtain ⟨b0, b1, b2, b3, b4, b5, b6, b7, b8, b9⟩ := h
  revert hs
  fun_cases PE.stepL s ev <;> intro hs <;> (first | cases hs | skip)
  all_goals (try simp only [bump_some _ _ _ (by assumption : s.rcd = some _)])
  all_goals (first | assumption | grind [SnapOK, pStatusOK_true, markDel_uid, markDel_phase, markDel_allocs, markDel_del, markDel_ver, markDel_of_del, J2, J3, PDel, PCre, PUpd, PRec, EDet, EAtt, EDel, GSeen, NotRunning, cases Phase])

set_option maxHeartbeats 1000000 in
theorem PRec.stepEnv {s t : St} {ev : Ev} (h1 : Inv1 s) (h : Inv2 s) (hs : PE.stepEnv s ev = some t) : PRec t := by
  obtain ⟨a1, a2, a3, a4, a4b, a5, a5b, a5c, a6, a6b, a7, a7b⟩ := h1
  obtain ⟨b0, b1, b2, b3, b4, b5, b6, b7, b8, b9⟩ := h
  revert hs
  fun_cases PE.stepEnv s ev <;> intro hs <;> (first | cases hs | skip)
  all_goals (try simp only [bump_some _ _ _ (by assumption : s.rcd = some _)])
  all_goals (first | assumption | grind [SnapOK, pStatusOK_true, markDel_uid, markDel_phase, markDel_allocs, markDel_del, markDel_ver, markDel_of_del, J2, J3, PDel, PCre, PUpd, PRec, EDet, EAtt, EDel, GSeen, NotRunning, cases Phase])

set_option maxHeartbeats 1000000 in
theorem PRec.stepP {s t : St} {ev : Ev} (h1 : Inv1 s) (h : Inv2 s) (hs : PE.stepP s ev = some t) : PRec t := by
  obtain ⟨a1, a2, a3, a4, a4b, a5, a5b, a5c, a6, a6b, a7, a7b⟩ := h1
  obtain ⟨b0, b1, b2, b3, b4, b5, b6, b7, b8, b9⟩ := h
  revert hs
  fun_cases PE.stepP s ev <;> intro hs <;> (first | cases hs | skip)
  all_goals (try simp only [deleteRec_some _ _ (by assumption : s.rcd = some _), bindRec, bump_some _ _ _ (by assumption : s.rcd = some _)])
  all_goals (first | assumption | grind [SnapOK, pStatusOK_true, markDel_uid, markDel_phase, markDel_allocs, markDel_del, markDel_ver, markDel_of_del, J2, J3, PDel, PCre, PUpd, PRec, EDet, EAtt, EDel, GSeen, NotRunning, cases Phase, pAfterDel, pAfterCre, podMatches_live, podMatches_absent, podMatches_exited, podMatches_term])

set_option maxHeartbeats 1000000 in
theorem PRec.stepE {s t : St} {ev : Ev} (h1 : Inv1 s) (h : Inv2 s) (hs : PE.stepE s ev = some t) : PRec t := by
  obtain ⟨a1, a2, a3, a4, a4b, a5, a5b, a5c, a6, a6b, a7, a7b⟩ := h1
  obtain ⟨b0, b1, b2, b3, b4, b5, b6, b7, b8, b9⟩ := h
  revert hs
  fun_cases PE.stepE s ev <;> intro hs <;> (first | cases hs | skip)
  all_goals (try simp only [deleteRec_some _ _ (by assumption : s.rcd = some _), bindRec, bump_some _ _ _ (by assumption : s.rcd = some _)])
  all_goals (first | assumption | grind [SnapOK, pStatusOK_true, markDel_uid, markDel_phase, markDel_allocs, markDel_del, markDel_ver, markDel_of_del, J2, J3, PDel, PCre, PUpd, PRec, EDet, EAtt, EDel, GSeen, NotRunning, cases Phase, podMatches_live, podMatches_absent, podMatches_exited, podMatches_term])

set_option maxHeartbeats 1000000 in
theorem PRec.stepG {s t : St} {ev : Ev} (h1 : Inv1 s) (h : Inv2 s) (hs : PE.stepG s ev = some t) : PRec t := by
  obtain ⟨a1, a2, a3, a4, a4b, a5, a5b, a5c, a6, a6b, a7, a7b⟩ := h1
  obtain ⟨b0, b1, b2, b3, b4, b5, b6, b7, b8, b9⟩ := h
  revert hs
  fun_cases PE.stepG s ev <;> intro hs <;> (first | cases hs | skip)
  all_goals (try simp only [bump_some _ _ _ (by assumption : s.rcd = some _)])
  all_goals (first | assumption | grind [SnapOK, pStatusOK_true, markDel_uid, markDel_phase, markDel_allocs, markDel_del, markDel_ver, markDel_of_del, J2, J3, PDel, PCre, PUpd, PRec, EDet, EAtt, EDel, GSeen, NotRunning, cases Phase, seenMatches_absent, seenMatches_present, requires_false])

set_option maxHeartbeats 1000000 in
theorem PRec.stepL {s t : St} {ev : Ev} (h1 : Inv1 s) (h : Inv2 s) (hs : PE.stepL s ev = some t) : PRec t := by
  obtain ⟨a1, a2, a3, a4, a4b, a5, a5b, a5c, a6, a6b, a7, a7b⟩ := h1
  obtain ⟨b0, b1, b2, b3, b4, b5, b6, b7, b8, b9⟩ := h
  revert hs
  fun_cases PE.stepL s ev <;> intro hs <;> (first | cases hs | skip)
  all_goals (try simp only [bump_some _ _ _ (by assumption : s.rcd = some _)])
  all_goals (first | assumption | grind [SnapOK, pStatusOK_true, markDel_uid, markDel_phase, markDel_allocs, markDel_del, markDel_ver, markDel_of_del, J2, J3, PDel, PCre, PUpd, PRec, EDet, EAtt, EDel, GSeen, NotRunning, cases Phase])

set_option maxHeartbeats 1000000 in
theorem EDet.stepEnv {s t : St} {ev : Ev} (h1 : Inv1 s) (h : Inv2 s) (hs : PE.stepEnv s ev = some t) : EDet t := by
  obtain ⟨a1, a2, a3, a4, a4b, a5, a5b, a5c, a6, a6b, a7, a7b⟩ := h1
  obtain ⟨b0, b1, b2, b3, b4, b5, b6, b7, b8, b9⟩ := h
  revert hs
  fun_cases PE.stepEnv s ev <;> intro hs <;> (first | cases hs | skip)
  all_goals (try simp only [bump_some _ _ _ (by assumption : s.rcd = some _)])
  all_goals (first | assumption | grind [SnapOK, pStatusOK_true, markDel_uid, markDel_phase, markDel_allocs, markDel_del, markDel_ver, markDel_of_del, J2, J3, PDel, PCre, PUpd, PRec, EDet, EAtt, EDel, GSeen, NotRunning, cases Phase])

set_option maxHeartbeats 1000000 in
theorem EDet.stepP {s t : St} {ev : Ev} (h1 : Inv1 s) (h : Inv2 s) (hs : PE.stepP s ev = some t) : EDet t := by
  obtain ⟨a1, a2, a3, a4, a4b, a5, a5b, a5c, a6, a6b, a7, a7b⟩ := h1
  obtain ⟨b0, b1, b2, b3, b4, b5, b6, b7, b8, b9⟩ := h
  revert hs
  fun_cases PE.stepP s ev <;> intro hs <;> (first | cases hs | skip)
  all_goals (try simp only [deleteRec_some _ _ (by assumption : s.rcd = some _), bindRec, bump_some _ _ _ (by assumption : s.rcd = some _)])
  all_goals (first | assumption | grind [SnapOK, pStatusOK_true, markDel_uid, markDel_phase, markDel_allocs, markDel_del, markDel_ver, markDel_of_del, J2, J3, PDel, PCre, PUpd, PRec, EDet, EAtt, EDel, GSeen, NotRunning, cases Phase, pAfterDel, pAfterCre, podMatches_live, podMatches_absent, podMatches_exited, podMatches_term])

set_option maxHeartbeats 1000000 in
theorem EDet.stepE {s t : St} {ev : Ev} (h1 : Inv1 s) (h : Inv2 s) (hs : PE.stepE s ev = some t) : EDet t := by
  obtain ⟨a1, a2, a3, a4, a4b, a5, a5b, a5c, a6, a6b, a7, a7b⟩ := h1
  obtain ⟨b0, b1, b2, b3, b4, b5, b6, b7, b8, b9⟩ := h
  revert hs
  fun_cases PE.stepE s ev <;> intro hs <;> (first | cases hs | skip)
  all_goals (try simp only [deleteRec_some _ _ (by assumption : s.rcd = some _), bindRec, bump_some _ _ _ (by assumption : s.rcd = some _)])
  all_goals (first | assumption | grind [SnapOK, pStatusOK_true, markDel_uid, markDel_phase, markDel_allocs, markDel_del, markDel_ver, markDel_of_del, J2, J3, PDel, PCre, PUpd, PRec, EDet, EAtt, EDel, GSeen, NotRunning, cases Phase, podMatches_live, podMatches_absent, podMatches_exited, podMatches_term])

set_option maxHeartbeats 1000000 in
theorem EDet.stepG {s t : St} {ev : Ev} (h1 : Inv1 s) (h : Inv2 s) (hs : PE.stepG s ev = some t) : EDet t := by
  obtain ⟨a1, a2, a3, a4, a4b, a5, a5b, a5c, a6, a6b, a7, a7b⟩ := h1
  obtain ⟨b0, b1, b2, b3, b4, b5, b6, b7, b8, b9⟩ := h
  revert hs
  fun_cases PE.stepG s ev <;> intro hs <;> (first | cases hs | skip)
  all_goals (try simp only [bump_some _ _ _ (by assumption : s.rcd = some _)])
  all_goals (first | assumption | grind [SnapOK, pStatusOK_true, markDel_uid, markDel_phase, markDel_allocs, markDel_del, markDel_ver, markDel_of_del, J2, J3, PDel, PCre, PUpd, PRec, EDet, EAtt, EDel, GSeen, NotRunning, cases Phase, seenMatches_absent, seenMatches_present, requires_false])

set_option maxHeartbeats 1000000 in
theorem EDet.stepL {s t : St} {ev : Ev} (h1 : Inv1 s) (h : Inv2 s) (hs : PE.stepL s ev = some t) : EDet t := by
  obtain ⟨a1, a2, a3, a4, a4b, a5, a5b, a5c, a6, a6b, a7, a7b⟩ := h1
  obtain ⟨b0, b1, b2, b3, b4, b5, b6, b7, b8, b9⟩ := h
  revert hs
  fun_cases PE.stepL s ev <;> intro hs <;> (first | cases hs | skip)
  all_goals (try simp only [bump_some _ _ _ (by assumption : s.rcd = some _)])
  all_goals (first | assumption | grind [SnapOK, pStatusOK_true, markDel_uid, markDel_phase, markDel_allocs, markDel_del, markDel_ver, markDel_of_del, J2, J3, PDel, PCre, PUpd, PRec, EDet, EAtt, EDel, GSeen, NotRunning, cases Phase])

set_option maxHeartbeats 1000000 in
theorem EAtt.stepEnv {s t : St} {ev : Ev} (h1 : Inv1 s) (h : Inv2 s) (hs : PE.stepEnv s ev = some t) : EAtt t := by
  obtain ⟨a1, a2, a3, a4, a4b, a5, a5b, a5c, a6, a6b, a7, a7b⟩ := h1
  obtain ⟨b0, b1, b2, b3, b4, b5, b6, b7, b8, b9⟩ := h
  revert hs
  fun_cases PE.stepEnv s ev <;> intro hs <;> (first | cases hs | skip)
  all_goals (try simp only [bump_some _ _ _ (by assumption : s.rcd = some _)])
  all_goals (first | assumption | grind [SnapOK, pStatusOK_true, markDel_uid, markDel_phase, markDel_allocs, markDel_del, markDel_ver, markDel_of_del, J2, J3, PDel, PCre, PUpd, PRec, EDet, EAtt, EDel, GSeen, NotRunning, cases Phase])

set_option maxHeartbeats 1000000 in
theorem EAtt.stepP {s t : St} {ev : Ev} (h1 : Inv1 s) (h : Inv2 s) (hs : PE.stepP s ev = some t) : EAtt t := by
  obtain ⟨a1, a2, a3, a4, a4b, a5, a5b, a5c, a6, a6b, a7, a7b⟩ := h1
  obtain ⟨b0, b1, b2, b3, b4, b5, b6, b7, b8, b9⟩ := h
  revert hs
  fun_cases PE.stepP s ev <;> intro hs <;> (first | cases hs | skip)
  all_goals (try simp only [deleteRec_some _ _ (by assumption : s.rcd = some _), bindRec, bump_some _ _ _ (by assumption : s.rcd = some _)])
  all_goals (first | assumption | grind [SnapOK, pStatusOK_true, markDel_uid, markDel_phase, markDel_allocs, markDel_del, markDel_ver, markDel_of_del, J2, J3, PDel, PCre, PUpd, PRec, EDet, EAtt, EDel, GSeen, NotRunning, cases Phase, pAfterDel, pAfterCre, podMatches_live, podMatches_absent, podMatches_exited, podMatches_term])

set_option maxHeartbeats 1000000 in
theorem EAtt.stepE {s t : St} {ev : Ev} (h1 : Inv1 s) (h : Inv2 s) (hs : PE.stepE s ev = some t) : EAtt t := by
  obtain ⟨a1, a2, a3, a4, a4b, a5, a5b, a5c, a6, a6b, a7, a7b⟩ := h1
  obtain ⟨b0, b1, b2, b3, b4, b5, b6, b7, b8, b9⟩ := h
  revert hs
  fun_cases PE.stepE s ev <;> intro hs <;> (first | cases hs | skip)
  all_goals (try simp only [deleteRec_some _ _ (by assumption : s.rcd = some _), bindRec, bump_some _ _ _ (by assumption : s.rcd = some _)])
  all_goals (first | assumption | grind [SnapOK, pStatusOK_true, markDel_uid, markDel_phase, markDel_allocs, markDel_del, markDel_ver, markDel_of_del, J2, J3, PDel, PCre, PUpd, PRec, EDet, EAtt, EDel, GSeen, NotRunning, cases Phase, podMatches_live, podMatches_absent, podMatches_exited, podMatches_term])

set_option maxHeartbeats 1000000 in
theorem EAtt.stepG {s t : St} {ev : Ev} (h1 : Inv1 s) (h : Inv2 s) (hs : PE.stepG s ev = some t) : EAtt t := by
  obtain ⟨a1, a2, a3, a4, a4b, a5, a5b, a5c, a6, a6b, a7, a7b⟩ := h1
  obtain ⟨b0, b1, b2, b3, b4, b5, b6, b7, b8, b9⟩ := h
  revert hs
  fun_cases PE.stepG s ev <;> intro hs <;> (first | cases hs | skip)
  all_goals (try simp only [bump_some _ _ _ (by assumption : s.rcd = some _)])
  all_goals (first | assumption | grind [SnapOK, pStatusOK_true, markDel_uid, markDel_phase, markDel_allocs, markDel_del, markDel_ver, markDel_of_del, J2, J3, PDel, PCre, PUpd, PRec, EDet, EAtt, EDel, GSeen, NotRunning, cases Phase, seenMatches_absent, seenMatches_present, requires_false])

set_option maxHeartbeats 1000000 in
theorem EAtt.stepL {s t : St} {ev : Ev} (h1 : Inv1 s) (h : Inv2 s) (hs : PE.stepL s ev = some t) : EAtt t := by
  obtain ⟨a1, a2, a3, a4, a4b, a5, a5b, a5c, a6, a6b, a7, a7b⟩ := h1
  obtain ⟨b0, b1, b2, b3, b4, b5, b6, b7, b8, b9⟩ := h
  revert hs
  fun_cases PE.stepL s ev <;> intro hs <;> (first | cases hs | skip)
  all_goals (try simp only [bump_some _ _ _ (by assumption : s.rcd = some _)])
  all_goals (first | assumption | grind [SnapOK, pStatusOK_true, markDel_uid, markDel_phase, markDel_allocs, markDel_del, markDel_ver, markDel_of_del, J2, J3, PDel, PCre, PUpd, PRec, EDet, EAtt, EDel, GSeen, NotRunning, cases Phase])

set_option maxHeartbeats 1000000 in
theorem EDel.stepEnv {s t : St} {ev : Ev} (h1 : Inv1 s) (h : Inv2 s) (hs : PE.stepEnv s ev = some t) : EDel t := by
  obtain ⟨a1, a2, a3, a4, a4b, a5, a5b, a5c, a6, a6b, a7, a7b⟩ := h1
  obtain ⟨b0, b1, b2, b3, b4, b5, b6, b7, b8, b9⟩ := h
  revert hs
  fun_cases PE.stepEnv s ev <;> intro hs <;> (first | cases hs | skip)
  all_goals (try simp only [bump_some _ _ _ (by assumption : s.rcd = some _)])
  all_goals (first | assumption | grind [SnapOK, pStatusOK_true, markDel_uid, markDel_phase, markDel_allocs, markDel_del, markDel_ver, markDel_of_del, J2, J3, PDel, PCre, PUpd, PRec, EDet, EAtt, EDel, GSeen, NotRunning, cases Phase])

set_option maxHeartbeats 1000000 in
theorem EDel.stepP {s t : St} {ev : Ev} (h1 : Inv1 s) (h : Inv2 s) (hs : PE.stepP s ev = some t) : EDel t := by
  obtain ⟨a1, a2, a3, a4, a4b, a5, a5b, a5c, a6, a6b, a7, a7b⟩ := h1
  obtain ⟨b0, b1, b2, b3, b4, b5, b6, b7, b8, b9⟩ := h
  revert hs
  fun_cases PE.stepP s ev <;> intro hs <;> (first | cases hs | skip)
  all_goals (try simp only [deleteRec_some _ _ (by assumption : s.rcd = some _), bindRec, bump_some _ _ _ (by assumption : s.rcd = some _)])
  all_goals (first | assumption | grind [SnapOK, pStatusOK_true, markDel_uid, markDel_phase, markDel_allocs, markDel_del, markDel_ver, markDel_of_del, J2, J3, PDel, PCre, PUpd, PRec, EDet, EAtt, EDel, GSeen, NotRunning, cases Phase, pAfterDel, pAfterCre, podMatches_live, podMatches_absent, podMatches_exited, podMatches_term])

set_option maxHeartbeats 1000000 in
theorem EDel.stepE {s t : St} {ev : Ev} (h1 : Inv1 s) (h : Inv2 s) (hs : PE.stepE s ev = some t) : EDel t := by
  obtain ⟨a1, a2, a3, a4, a4b, a5, a5b, a5c, a6, a6b, a7, a7b⟩ := h1
  obtain ⟨b0, b1, b2, b3, b4, b5, b6, b7, b8, b9⟩ := h
  revert hs
  fun_cases PE.stepE s ev <;> intro hs <;> (first | cases hs | skip)
  all_goals (try simp only [deleteRec_some _ _ (by assumption : s.rcd = some _), bindRec, bump_some _ _ _ (by assumption : s.rcd = some _)])
  all_goals (first | assumption | grind [SnapOK, pStatusOK_true, markDel_uid, markDel_phase, markDel_allocs, markDel_del, markDel_ver, markDel_of_del, J2, J3, PDel, PCre, PUpd, PRec, EDet, EAtt, EDel, GSeen, NotRunning, cases Phase, podMatches_live, podMatches_absent, podMatches_exited, podMatches_term])

set_option maxHeartbeats 1000000 in
theorem EDel.stepG {s t : St} {ev : Ev} (h1 : Inv1 s) (h : Inv2 s) (hs : PE.stepG s ev = some t) : EDel t := by
  obtain ⟨a1, a2, a3, a4, a4b, a5, a5b, a5c, a6, a6b, a7, a7b⟩ := h1
  obtain ⟨b0, b1, b2, b3, b4, b5, b6, b7, b8, b9⟩ := h
  revert hs
  fun_cases PE.stepG s ev <;> intro hs <;> (first | cases hs | skip)
  all_goals (try simp only [bump_some _ _ _ (by assumption : s.rcd = some _)])
  all_goals (first | assumption | grind [SnapOK, pStatusOK_true, markDel_uid, markDel_phase, markDel_allocs, markDel_del, markDel_ver, markDel_of_del, J2, J3, PDel, PCre, PUpd, PRec, EDet, EAtt, EDel, GSeen, NotRunning, cases Phase, seenMatches_absent, seenMatches_present, requires_false])

set_option maxHeartbeats 1000000 in
theorem EDel.stepL {s t : St} {ev : Ev} (h1 : Inv1 s) (h : Inv2 s) (hs : PE.stepL s ev = some t) : EDel t := by
  obtain ⟨a1, a2, a3, a4, a4b, a5, a5b, a5c, a6, a6b, a7, a7b⟩ := h1
  obtain ⟨b0, b1, b2, b3, b4, b5, b6, b7, b8, b9⟩ := h
  revert hs
  fun_cases PE.stepL s ev <;> intro hs <;> (first | cases hs | skip)
  all_goals (try simp only [bump_some _ _ _ (by assumption : s.rcd = some _)])
  all_goals (first | assumption | grind [SnapOK, pStatusOK_true, markDel_uid, markDel_phase, markDel_allocs, markDel_del, markDel_ver, markDel_of_del, J2, J3, PDel, PCre, PUpd, PRec, EDet, EAtt, EDel, GSeen, NotRunning, cases Phase])

set_option maxHeartbeats 1000000 in
theorem GSeen.stepEnv {s t : St} {ev : Ev} (h1 : Inv1 s) (h : Inv2 s) (hs : PE.stepEnv s ev = some t) : GSeen t := by
  obtain ⟨a1, a2, a3, a4, a4b, a5, a5b, a5c, a6, a6b, a7, a7b⟩ := h1
  obtain ⟨b0, b1, b2, b3, b4, b5, b6, b7, b8, b9⟩ := h
  revert hs
  fun_cases PE.stepEnv s ev <;> intro hs <;> (first | cases hs | skip)
  all_goals (try simp only [bump_some _ _ _ (by assumption : s.rcd = some _)])
  all_goals (first | assumption | grind [SnapOK, pStatusOK_true, markDel_uid, markDel_phase, markDel_allocs, markDel_del, markDel_ver, markDel_of_del, J2, J3, PDel, PCre, PUpd, PRec, EDet, EAtt, EDel, GSeen, NotRunning, cases Phase])

set_option maxHeartbeats 1000000 in
theorem GSeen.stepP {s t : St} {ev : Ev} (h1 : Inv1 s) (h : Inv2 s) (hs : PE.stepP s ev = some t) : GSeen t := by
  obtain ⟨a1, a2, a3, a4, a4b, a5, a5b, a5c, a6, a6b, a7, a7b⟩ := h1
  obtain ⟨b0, b1, b2, b3, b4, b5, b6, b7, b8, b9⟩ := h
  revert hs
  fun_cases PE.stepP s ev <;> intro hs <;> (first | cases hs | skip)
  all_goals (try simp only [deleteRec_some _ _ (by assumption : s.rcd = some _), bindRec, bump_some _ _ _ (by assumption : s.rcd = some _)])
  all_goals (first | assumption | grind [SnapOK, pStatusOK_true, markDel_uid, markDel_phase, markDel_allocs, markDel_del, markDel_ver, markDel_of_del, J2, J3, PDel, PCre, PUpd, PRec, EDet, EAtt, EDel, GSeen, NotRunning, cases Phase, pAfterDel, pAfterCre, podMatches_live, podMatches_absent, podMatches_exited, podMatches_term])

set_option maxHeartbeats 1000000 in
theorem GSeen.stepE {s t : St} {ev : Ev} (h1 : Inv1 s) (h : Inv2 s) (hs : PE.stepE s ev = some t) : GSeen t := by
  obtain ⟨a1, a2, a3, a4, a4b, a5, a5b, a5c, a6, a6b, a7, a7b⟩ := h1
  obtain ⟨b0, b1, b2, b3, b4, b5, b6, b7, b8, b9⟩ := h
  revert hs
  fun_cases PE.stepE s ev <;> intro hs <;> (first | cases hs | skip)
  all_goals (try simp only [deleteRec_some _ _ (by assumption : s.rcd = some _), bindRec, bump_some _ _ _ (by assumption : s.rcd = some _)])
  all_goals (first | assumption | grind [SnapOK, pStatusOK_true, markDel_uid, markDel_phase, markDel_allocs, markDel_del, markDel_ver, markDel_of_del, J2, J3, PDel, PCre, PUpd, PRec, EDet, EAtt, EDel, GSeen, NotRunning, cases Phase, podMatches_live, podMatches_absent, podMatches_exited, podMatches_term])

set_option maxHeartbeats 1000000 in
theorem GSeen.stepG {s t : St} {ev : Ev} (h1 : Inv1 s) (h : Inv2 s) (hs : PE.stepG s ev = some t) : GSeen t := by
  obtain ⟨a1, a2, a3, a4, a4b, a5, a5b, a5c, a6, a6b, a7, a7b⟩ := h1
  obtain ⟨b0, b1, b2, b3, b4, b5, b6, b7, b8, b9⟩ := h
  revert hs
  fun_cases PE.stepG s ev <;> intro hs <;> (first | cases hs | skip)
  all_goals (try simp only [bump_some _ _ _ (by assumption : s.rcd = some _)])
  all_goals (first | assumption | grind [SnapOK, pStatusOK_true, markDel_uid, markDel_phase, markDel_allocs, markDel_del, markDel_ver, markDel_of_del, J2, J3, PDel, PCre, PUpd, PRec, EDet, EAtt, EDel, GSeen, NotRunning, cases Phase, seenMatches_absent, seenMatches_present, requires_false])

set_option maxHeartbeats 1000000 in
theorem GSeen.stepL {s t : St} {ev : Ev} (h1 : Inv1 s) (h : Inv2 s) (hs : PE.stepL s ev = some t) : GSeen t := by
  obtain ⟨a1, a2, a3, a4, a4b, a5, a5b, a5c, a6, a6b, a7, a7b⟩ := h1
  obtain ⟨b0, b1, b2, b3, b4, b5, b6, b7, b8, b9⟩ := h
  revert hs
  fun_cases PE.stepL s ev <;> intro hs <;> (first | cases hs | skip)
  all_goals (try simp only [bump_some _ _ _ (by assumption : s.rcd = some _)])
  all_goals (first | assumption | grind [SnapOK, pStatusOK_true, markDel_uid, markDel_phase, markDel_allocs, markDel_del, markDel_ver, markDel_of_del, J2, J3, PDel, PCre, PUpd, PRec, EDet, EAtt, EDel, GSeen, NotRunning, cases Phase])

theorem Inv2.stepEnv {s t : St} {ev : Ev} (h1 : Inv1 s) (h : Inv2 s) (hs : PE.stepEnv s ev = some t) : Inv2 t :=
  ⟨J2.stepEnv h1 h hs, J3.stepEnv h1 h hs, PDel.stepEnv h1 h hs, PCre.stepEnv h1 h hs, PUpd.stepEnv h1 h hs, PRec.stepEnv h1 h hs, EDet.stepEnv h1 h hs, EAtt.stepEnv h1 h hs, EDel.stepEnv h1 h hs, GSeen.stepEnv h1 h hs⟩

theorem Inv2.stepP {s t : St} {ev : Ev} (h1 : Inv1 s) (h : Inv2 s) (hs : PE.stepP s ev = some t) : Inv2 t :=
  ⟨J2.stepP h1 h hs, J3.stepP h1 h hs, PDel.stepP h1 h hs, PCre.stepP h1 h hs, PUpd.stepP h1 h hs, PRec.stepP h1 h hs, EDet.stepP h1 h hs, EAtt.stepP h1 h hs, EDel.stepP h1 h hs, GSeen.stepP h1 h hs⟩

theorem Inv2.stepE {s t : St} {ev : Ev} (h1 : Inv1 s) (h : Inv2 s) (hs : PE.stepE s ev = some t) : Inv2 t :=
  ⟨J2.stepE h1 h hs, J3.stepE h1 h hs, PDel.stepE h1 h hs, PCre.stepE h1 h hs, PUpd.stepE h1 h hs, PRec.stepE h1 h hs, EDet.stepE h1 h hs, EAtt.stepE h1 h hs, EDel.stepE h1 h hs, GSeen.stepE h1 h hs⟩

theorem Inv2.stepG {s t : St} {ev : Ev} (h1 : Inv1 s) (h : Inv2 s) (hs : PE.stepG s ev = some t) : Inv2 t :=
  ⟨J2.stepG h1 h hs, J3.stepG h1 h hs, PDel.stepG h1 h hs, PCre.stepG h1 h hs, PUpd.stepG h1 h hs, PRec.stepG h1 h hs, EDet.stepG h1 h hs, EAtt.stepG h1 h hs, EDel.stepG h1 h hs, GSeen.stepG h1 h hs⟩

theorem Inv2.stepL {s t : St} {ev : Ev} (h1 : Inv1 s) (h : Inv2 s) (hs : PE.stepL s ev = some t) : Inv2 t :=
  ⟨J2.stepL h1 h hs, J3.stepL h1 h hs, PDel.stepL h1 h hs, PCre.stepL h1 h hs, PUpd.stepL h1 h hs, PRec.stepL h1 h hs, EDet.stepL h1 h hs, EAtt.stepL h1 h hs, EDel.stepL h1 h hs, GSeen.stepL h1 h hs⟩

theorem Inv2.step {s t : St} {ev : Ev} (h1 : Inv1 s) (h : Inv2 s) (hs : PE.step s ev = some t) : Inv2 t := by
  cases ev <;> simp only [PE.step] at hs <;>
    first | exact h.stepEnv h1 hs | exact h.stepP h1 hs | exact h.stepE h1 hs | exact h.stepG h1 hs | exact h.stepL h1 hs | exact (stepD_eq hs) ▸ h

end Terway.PE

