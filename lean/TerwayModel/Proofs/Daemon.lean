import TerwayModel.Model.Daemon
/-!
Helper lemmas and invariants for the daemon model (used by Props/C04, C05, C09).
-/
namespace Terway.Daemon

/-! ### store lemmas -/

theorem dbGet_dbDel_self (db : List (String × Rec)) (p : String) : dbGet (dbDel db p) p = none := by
  induction db with
  | nil => rfl
  | cons h t ih =>
    obtain ⟨k, r⟩ := h
    by_cases hk : k = p
    · simp [dbDel, hk, ih]
    · simp [dbDel, dbGet, hk, ih]

theorem dbGet_dbDel_ne (db : List (String × Rec)) (p q : String) (h : q ≠ p) :
    dbGet (dbDel db p) q = dbGet db q := by
  induction db with
  | nil => rfl
  | cons hd t ih =>
    obtain ⟨k, r⟩ := hd
    by_cases hk : k = p
    · have : k ≠ q := by intro e; exact h (e ▸ hk ▸ rfl)
      simp [dbDel, dbGet, hk, ih]
      intro e; exact absurd (e ▸ rfl : q = p) h
    · by_cases hq : k = q
      · subst hq; simp [dbDel, dbGet, hk]
      · simp [dbDel, dbGet, hk, hq, ih]

theorem dbGet_dbPut_self (db : List (String × Rec)) (p : String) (r : Rec) : dbGet (dbPut db p r) p = some r := by
  simp [dbPut, dbGet]

theorem dbGet_dbPut_ne (db : List (String × Rec)) (p q : String) (r : Rec) (h : q ≠ p) :
    dbGet (dbPut db p r) q = dbGet db q := by
  have : ¬ p = q := fun e => h e.symm
  simp [dbPut, dbGet, this, dbGet_dbDel_ne db p q h]

theorem dbGet_mem {db : List (String × Rec)} {p : String} {r : Rec} (h : dbGet db p = some r) : (p, r) ∈ db := by
  induction db with
  | nil => simp [dbGet] at h
  | cons hd t ih =>
    obtain ⟨k, r'⟩ := hd
    by_cases hk : k = p
    · simp [dbGet, hk] at h; subst h; subst hk; simp
    · simp [dbGet, hk] at h; exact List.mem_cons_of_mem _ (ih h)

/-! ### pool lemmas -/

def key (e : Ent) : String × Nat := (e.eni, e.ip)

theorem claim_keys (pool : List Ent) (p eni : String) (ips : List Nat) :
    (claim pool p eni ips).map key = pool.map key := by
  simp only [claim, List.map_map]
  apply List.map_congr_left
  intro e _
  simp only [Function.comp, key]
  split <;> rfl

theorem release_keys (pool : List Ent) (p eni : String) (ips : List Nat) :
    (release pool p eni ips).map key = pool.map key := by
  simp only [release, List.map_map]
  apply List.map_congr_left
  intro e _
  simp only [Function.comp, key]
  split <;> rfl

/-- every entry of a claimed pool comes from an entry with the same key, whose owner is `p` if the key was
    claimed and unchanged otherwise -/
theorem mem_claim {pool : List Ent} {p eni : String} {ips : List Nat} {e' : Ent} (h : e' ∈ claim pool p eni ips) :
    ∃ e ∈ pool, e'.eni = e.eni ∧ e'.ip = e.ip ∧ e'.valid = e.valid ∧
      ((e.eni = eni ∧ e.ip ∈ ips ∧ e'.owner = some p) ∨ (¬ (e.eni = eni ∧ e.ip ∈ ips) ∧ e'.owner = e.owner)) := by
  simp only [claim, List.mem_map] at h
  obtain ⟨e, he, rfl⟩ := h
  refine ⟨e, he, ?_⟩
  by_cases c : e.eni = eni ∧ e.ip ∈ ips
  · simp [c]
  · simp [c]

theorem mem_release {pool : List Ent} {p eni : String} {ips : List Nat} {e' : Ent} (h : e' ∈ release pool p eni ips) :
    ∃ e ∈ pool, e'.eni = e.eni ∧ e'.ip = e.ip ∧ e'.valid = e.valid ∧
      ((e.eni = eni ∧ e.ip ∈ ips ∧ e.owner = some p ∧ e'.owner = none) ∨
       (¬ (e.eni = eni ∧ e.ip ∈ ips ∧ e.owner = some p) ∧ e'.owner = e.owner)) := by
  simp only [release, List.mem_map] at h
  obtain ⟨e, he, rfl⟩ := h
  refine ⟨e, he, ?_⟩
  by_cases c : e.eni = eni ∧ e.ip ∈ ips ∧ e.owner = some p
  · simp [c]
  · simp [c]

/-- release never gives an entry a new owner -/
theorem release_owner {pool : List Ent} {p eni : String} {ips : List Nat} {e' : Ent} {q : String}
    (h : e' ∈ release pool p eni ips) (ho : e'.owner = some q) :
    ∃ e ∈ pool, e.eni = e'.eni ∧ e.ip = e'.ip ∧ e.owner = some q := by
  obtain ⟨e, he, h1, h2, _, h4⟩ := mem_release h
  rcases h4 with ⟨_, _, _, hn⟩ | ⟨_, hs⟩
  · rw [hn] at ho; cases ho
  · exact ⟨e, he, h1.symm, h2.symm, hs ▸ ho⟩

/-- what release does to the entry with a given key -/
theorem release_of_mem {pool : List Ent} {p eni : String} {ips : List Nat} {e : Ent} (h : e ∈ pool) :
    (if e.eni = eni ∧ e.ip ∈ ips ∧ e.owner = some p then { e with owner := none } else e) ∈ release pool p eni ips := by
  simp only [release, List.mem_map]
  exact ⟨e, h, rfl⟩

theorem claim_of_mem {pool : List Ent} {p eni : String} {ips : List Nat} {e : Ent} (h : e ∈ pool) :
    (if e.eni = eni ∧ e.ip ∈ ips then { e with owner := some p } else e) ∈ claim pool p eni ips := by
  simp only [claim, List.mem_map]
  exact ⟨e, h, rfl⟩

/-- keys are distinct -/
def KeysNodup (pool : List Ent) : Prop := (pool.map key).Nodup

theorem KeysNodup.eq {pool : List Ent} (h : KeysNodup pool) {a b : Ent} (ha : a ∈ pool) (hb : b ∈ pool)
    (h1 : a.eni = b.eni) (h2 : a.ip = b.ip) : a = b := by
  have hk : key a = key b := by simp [key, h1, h2]
  unfold KeysNodup at h
  induction pool with
  | nil => cases ha
  | cons x xs ih =>
    simp only [List.map_cons, List.nodup_cons, List.mem_map, not_exists, not_and] at h
    rcases List.mem_cons.mp ha with rfl | ha'
    · rcases List.mem_cons.mp hb with rfl | hb'
      · rfl
      · exact absurd hk.symm (h.1 b hb')
    · rcases List.mem_cons.mp hb with rfl | hb'
      · exact absurd hk (h.1 a ha')
      · exact ih h.2 ha' hb'

end Terway.Daemon

namespace Terway.Daemon

/-! ### what `pickOK` guarantees -/

def OwnIn (pool : List Ent) (p eni : String) (six : Bool) : Prop :=
  ∃ x ∈ pool, x.eni = eni ∧ x.v6 = six ∧ x.owner = some p

theorem any_own_iff (pool : List Ent) (p eni : String) (six : Bool) :
    (pool.any fun x => x.eni == eni && x.v6 == six && x.owner == some p) = true ↔ OwnIn pool p eni six := by
  simp [OwnIn, List.any_eq_true, and_assoc]

structure PeekSpec (pool : List Ent) (p eni : String) (six : Bool) (e : Ent) : Prop where
  mem : e ∈ pool
  onEni : e.eni = eni
  fam : e.v6 = six
  own : OwnIn pool p eni six → e.owner = some p
  free : ¬ OwnIn pool p eni six → e.owner = none ∧ e.valid = true

theorem peekOK_spec {pool : List Ent} {p eni : String} {six : Bool} {e : Ent}
    (h : peekOK pool p eni six e = true) : PeekSpec pool p eni six e := by
  unfold peekOK at h
  simp only [Bool.and_eq_true, decide_eq_true_eq, beq_iff_eq] at h
  obtain ⟨⟨⟨h1, h2⟩, h3⟩, h4⟩ := h
  by_cases c : (pool.any fun x => x.eni == eni && x.v6 == six && x.owner == some p) = true
  · rw [if_pos c] at h4
    have hc := (any_own_iff pool p eni six).mp c
    exact ⟨h1, h2, h3, fun _ => by simpa using h4, fun n => absurd hc n⟩
  · rw [if_neg c] at h4
    have hc : ¬ OwnIn pool p eni six := fun o => c ((any_own_iff pool p eni six).mpr o)
    simp only [Bool.and_eq_true, beq_iff_eq] at h4
    exact ⟨h1, h2, h3, fun o => absurd o hc, fun _ => h4⟩

theorem PeekSpec.owner_cases {pool : List Ent} {p eni : String} {six : Bool} {e : Ent}
    (h : PeekSpec pool p eni six e) : e.owner = some p ∨ e.owner = none := by
  by_cases c : OwnIn pool p eni six
  · exact Or.inl (h.own c)
  · exact Or.inr (h.free c).1

/-- the shape of a record's address list: one IPv4 address, plus one IPv6 address when dual stack -/
def Shape (dual : Bool) (ips : List Nat) : Prop :=
  (dual = false ∧ ∃ a, ips = [a] ∧ a < v6Base) ∨ (dual = true ∧ ∃ a b, ips = [a, b] ∧ a < v6Base ∧ v6Base ≤ b)

structure PickSpec (s : Svc) (p : String) (pick : List Ent) (eni : String) : Prop where
  each : ∀ e ∈ pick, PeekSpec s.pool p eni e.v6 e
  shape : Shape s.dual (pick.map (·.ip))
  pin : ∀ r, dbGet s.db p = some r → r.eni = eni
  head : (pick.head?.map (·.eni)).getD "" = eni

theorem v6_false_iff (e : Ent) : e.v6 = false ↔ e.ip < v6Base := by
  simp [Ent.v6]
theorem v6_true_iff (e : Ent) : e.v6 = true ↔ v6Base ≤ e.ip := by
  simp [Ent.v6]

theorem pickOK_spec {s : Svc} {p : String} {pick : List Ent} (h : pickOK s p pick = true) :
    ∃ eni, PickSpec s p pick eni := by
  unfold pickOK at h
  have pinSpec : ∀ eni, pickOK.pinOK s p eni = true → ∀ r, dbGet s.db p = some r → r.eni = eni := by
    intro eni hp r hr
    unfold pickOK.pinOK at hp
    rw [hr] at hp
    simpa using hp
  match pick, h with
  | [e4], h =>
    simp only [Bool.and_eq_true, Bool.not_eq_true'] at h
    obtain ⟨⟨hd, h4⟩, hp⟩ := h
    have s4 := peekOK_spec h4
    refine ⟨e4.eni, ⟨?_, ?_, pinSpec _ hp, by simp⟩⟩
    · intro e he
      simp only [List.mem_singleton] at he
      subst he
      rw [s4.fam]; exact s4
    · exact Or.inl ⟨hd, e4.ip, by simp, (v6_false_iff e4).mp s4.fam⟩
  | [e4, e6], h =>
    simp only [Bool.and_eq_true] at h
    obtain ⟨⟨⟨hd, h4⟩, h6⟩, hp⟩ := h
    have s4 := peekOK_spec h4
    have s6 := peekOK_spec h6
    refine ⟨e4.eni, ⟨?_, ?_, pinSpec _ hp, by simp⟩⟩
    · intro e he
      simp only [List.mem_cons, List.not_mem_nil, or_false] at he
      rcases he with rfl | rfl
      · rw [s4.fam]; exact s4
      · rw [s6.fam]; exact s6
    · exact Or.inr ⟨hd, e4.ip, e6.ip, by simp, (v6_false_iff e4).mp s4.fam, (v6_true_iff e6).mp s6.fam⟩

end Terway.Daemon

namespace Terway.Daemon

/-! ### the invariant -/

def NoShare (db : List (String × Rec)) : Prop :=
  ∀ p q r1 r2, dbGet db p = some r1 → dbGet db q = some r2 → p ≠ q → r1.eni = r2.eni →
    ∀ ip, ip ∈ r1.ips → ip ∉ r2.ips

structure Inv (s : Svc) : Prop where
  /-- pool keys are distinct -/
  keys : KeysNodup s.pool
  /-- one record per pod -/
  dbKeys : (s.db.map (·.1)).Nodup
  /-- records have one address per enabled family -/
  shape : ∀ p r, dbGet s.db p = some r → Shape s.dual r.ips
  /-- a recorded address that is in the pool is bound to its pod -/
  bound : ∀ p r, dbGet s.db p = some r → ∀ e ∈ s.pool, e.eni = r.eni → e.ip ∈ r.ips → e.owner = some p
  /-- every binding is recorded -/
  recorded : ∀ e ∈ s.pool, ∀ p, e.owner = some p → ∃ r, dbGet s.db p = some r ∧ e.eni = r.eni ∧ e.ip ∈ r.ips
  /-- two records never name the same address -/
  noShare : NoShare s.db

theorem dbDel_keys_sub (db : List (String × Rec)) (p : String) : ∀ k ∈ (dbDel db p).map (·.1), k ∈ db.map (·.1) ∧ k ≠ p := by
  induction db with
  | nil => simp [dbDel]
  | cons hd t ih =>
    obtain ⟨k, r⟩ := hd
    intro x hx
    by_cases hk : k = p
    · simp only [dbDel, hk, if_true] at hx
      have := ih x hx
      exact ⟨by simp [this.1], this.2⟩
    · simp only [dbDel, hk, if_false, List.map_cons, List.mem_cons] at hx
      rcases hx with rfl | hx
      · exact ⟨by simp, hk⟩
      · have := ih x hx
        exact ⟨by simp [this.1], this.2⟩

theorem dbDel_nodup {db : List (String × Rec)} (p : String) (h : (db.map (·.1)).Nodup) : ((dbDel db p).map (·.1)).Nodup := by
  induction db with
  | nil => simp [dbDel]
  | cons hd t ih =>
    obtain ⟨k, r⟩ := hd
    simp only [List.map_cons, List.nodup_cons] at h
    by_cases hk : k = p
    · simp only [dbDel, hk, if_true]; exact ih h.2
    · simp only [dbDel, hk, if_false, List.map_cons, List.nodup_cons]
      exact ⟨fun hm => h.1 (dbDel_keys_sub t p k hm).1, ih h.2⟩

theorem dbPut_nodup {db : List (String × Rec)} (p : String) (r : Rec) (h : (db.map (·.1)).Nodup) :
    ((dbPut db p r).map (·.1)).Nodup := by
  simp only [dbPut, List.map_cons, List.nodup_cons]
  exact ⟨fun hm => (dbDel_keys_sub db p p hm).2 rfl, dbDel_nodup p h⟩

/-- a one-family-per-address shape has at most one address of each family -/
theorem Shape.fam_unique {dual : Bool} {ips : List Nat} (h : Shape dual ips) {a b : Nat}
    (ha : a ∈ ips) (hb : b ∈ ips) (hf : decide (v6Base ≤ a) = decide (v6Base ≤ b)) : a = b := by
  rcases h with ⟨_, x, rfl, _⟩ | ⟨_, x, y, rfl, hx, hy⟩
  · simp at ha hb; omega
  · simp at ha hb hf
    rcases ha with rfl | rfl <;> rcases hb with rfl | rfl <;> first | rfl | omega

/-- ... and a family that is enabled has its address -/
theorem Shape.has_fam {dual : Bool} {ips : List Nat} (h : Shape dual ips) {a : Nat} (ha : a ∈ ips) :
    ∀ l : List Nat, Shape dual l → ∃ b ∈ l, decide (v6Base ≤ b) = decide (v6Base ≤ a) := by
  intro l hl
  rcases h with ⟨hd, x, rfl, hx⟩ | ⟨hd, x, y, rfl, hx, hy⟩ <;>
    rcases hl with ⟨hd', x', rfl, hx'⟩ | ⟨hd', x', y', rfl, hx', hy'⟩
  · simp at ha; subst ha; exact ⟨x', by simp, by simp; omega⟩
  · rw [hd] at hd'; cases hd'
  · rw [hd] at hd'; cases hd'
  · simp at ha
    rcases ha with rfl | rfl
    · exact ⟨x', by simp, by simp; omega⟩
    · exact ⟨y', by simp, by simp; omega⟩

end Terway.Daemon

namespace Terway.Daemon

theorem PickSpec.claimed_is_pick {s : Svc} {p eni : String} {pick : List Ent} (hp : PickSpec s p pick eni)
    (hk : KeysNodup s.pool) {e : Ent} (he : e ∈ s.pool) (h1 : e.eni = eni) (h2 : e.ip ∈ pick.map (·.ip)) : e ∈ pick := by
  simp only [List.mem_map] at h2
  obtain ⟨pe, hpe, hip⟩ := h2
  have sp := hp.each pe hpe
  have : pe = e := hk.eq sp.mem he (sp.onEni.trans h1.symm) hip
  exact this ▸ hpe

theorem Inv.add_pres {s : Svc} (h : Inv s) {p cid : String} {stick : Bool} {pick : List Ent} {eni : String}
    (hp : PickSpec s p pick eni) :
    Inv { s with pool := claim s.pool p eni (pick.map (·.ip)),
                 db := dbPut s.db p { cid := cid, eni := eni, ips := pick.map (·.ip), stick := stick } } := by
  have pickOwner : ∀ e ∈ pick, e.owner = some p ∨ e.owner = none := fun e he => (hp.each e he).owner_cases
  refine ⟨?_, ?_, ?_, ?_, ?_, ?_⟩
  · -- keys
    show KeysNodup (claim s.pool p eni _)
    unfold KeysNodup; rw [claim_keys]; exact h.keys
  · exact dbPut_nodup p _ h.dbKeys
  · -- shape
    intro q r hq
    by_cases hqp : q = p
    · subst hqp
      rw [dbGet_dbPut_self] at hq
      cases hq
      exact hp.shape
    · rw [dbGet_dbPut_ne _ _ _ _ hqp] at hq
      exact h.shape q r hq
  · -- bound
    intro q r hq e' he' h1 h2
    obtain ⟨e, he, k1, k2, _, hc⟩ := mem_claim he'
    by_cases hqp : q = p
    · subst hqp
      rw [dbGet_dbPut_self] at hq
      cases hq
      rcases hc with ⟨_, _, ho⟩ | ⟨hn, _⟩
      · exact ho
      · exact absurd ⟨k1 ▸ h1, k2 ▸ h2⟩ hn
    · rw [dbGet_dbPut_ne _ _ _ _ hqp] at hq
      have hb := h.bound q r hq e he (k1 ▸ h1) (k2 ▸ h2)
      rcases hc with ⟨c1, c2, _⟩ | ⟨_, ho⟩
      · have hm := hp.claimed_is_pick h.keys he c1 c2
        rcases pickOwner e hm with o | o <;> rw [hb] at o <;> cases o
        exact absurd rfl hqp
      · rw [ho]; exact hb
  · -- recorded
    intro e' he' q ho
    obtain ⟨e, he, k1, k2, _, hc⟩ := mem_claim he'
    by_cases hqp : q = p
    · subst hqp
      refine ⟨_, dbGet_dbPut_self _ _ _, ?_⟩
      rcases hc with ⟨c1, c2, _⟩ | ⟨hn, ho'⟩
      · exact ⟨k1.trans c1, k2 ▸ c2⟩
      · -- an entry the pod held before and that is not in the pick: impossible
        exfalso
        rw [ho'] at ho
        obtain ⟨r, hr, e1, e2⟩ := h.recorded e he q ho
        have hpin := hp.pin r hr
        have hsh := h.shape q r hr
        -- the pick has an entry of the same family, and it is the pod's own
        obtain ⟨b, hb, hfam⟩ := hsh.has_fam e2 _ hp.shape
        simp only [List.mem_map] at hb
        obtain ⟨pe, hpe, rfl⟩ := hb
        have sp := hp.each pe hpe
        have hown : OwnIn s.pool q eni pe.v6 := ⟨e, he, e1.trans hpin, by simpa [Ent.v6] using hfam.symm, ho⟩
        have hpo := sp.own hown
        obtain ⟨r', hr', f1, f2⟩ := h.recorded pe sp.mem q hpo
        rw [hr] at hr'; cases hr'
        have : pe.ip = e.ip := hsh.fam_unique f2 e2 hfam
        exact hn ⟨e1.trans hpin, List.mem_map.mpr ⟨pe, hpe, this⟩⟩
    · rcases hc with ⟨_, _, ho'⟩ | ⟨_, ho'⟩
      · rw [ho'] at ho; cases ho; exact absurd rfl hqp
      · rw [ho'] at ho
        obtain ⟨r, hr, e1, e2⟩ := h.recorded e he q ho
        exact ⟨r, by rw [dbGet_dbPut_ne _ _ _ _ hqp]; exact hr, k1 ▸ e1, k2 ▸ e2⟩
  · -- noShare
    intro q1 q2 r1 r2 h1 h2 hne he ip hi hj
    -- a record of another pod naming an address of the pick: that entry would be bound to the other pod
    have key : ∀ q r, q ≠ p → dbGet s.db q = some r → r.eni = eni → ∀ ip ∈ pick.map (·.ip), ip ∉ r.ips := by
      intro q r hq hr hre ip hip hir
      simp only [List.mem_map] at hip
      obtain ⟨pe, hpe, rfl⟩ := hip
      have sp := hp.each pe hpe
      have := h.bound q r hr pe sp.mem (sp.onEni.trans hre.symm) hir
      rcases pickOwner pe hpe with o | o <;> rw [this] at o <;> cases o
      exact hq rfl
    by_cases c1 : q1 = p
    · subst c1
      rw [dbGet_dbPut_self] at h1; cases h1
      rw [dbGet_dbPut_ne _ _ _ _ (Ne.symm hne)] at h2
      exact key q2 r2 (Ne.symm hne) h2 he.symm ip hi hj
    · by_cases c2 : q2 = p
      · subst c2
        rw [dbGet_dbPut_self] at h2; cases h2
        rw [dbGet_dbPut_ne _ _ _ _ c1] at h1
        exact key q1 r1 c1 h1 he ip hj hi
      · rw [dbGet_dbPut_ne _ _ _ _ c1] at h1
        rw [dbGet_dbPut_ne _ _ _ _ c2] at h2
        exact h.noShare q1 q2 r1 r2 h1 h2 hne he ip hi hj

end Terway.Daemon

namespace Terway.Daemon

/-- releasing what a record names and deleting the record (a DEL of the current sandbox, or the GC
    collecting the pod) -/
def collectOne (s : Svc) (p : String) (r : Rec) : Svc :=
  { s with pool := release s.pool p r.eni r.ips, db := dbDel s.db p }

theorem dbGet_dbDel_some {db : List (String × Rec)} {p q : String} {r : Rec} (h : dbGet (dbDel db p) q = some r) :
    q ≠ p ∧ dbGet db q = some r := by
  by_cases c : q = p
  · subst c; rw [dbGet_dbDel_self] at h; cases h
  · exact ⟨c, by rw [← dbGet_dbDel_ne db p q c]; exact h⟩

theorem Inv.collectOne_pres {s : Svc} (h : Inv s) {p : String} {r : Rec} (hr : dbGet s.db p = some r) :
    Inv (collectOne s p r) := by
  refine ⟨?_, dbDel_nodup p h.dbKeys, ?_, ?_, ?_, ?_⟩
  · show KeysNodup (release s.pool p r.eni r.ips)
    unfold KeysNodup; rw [release_keys]; exact h.keys
  · intro q r' hq
    exact h.shape q r' (dbGet_dbDel_some hq).2
  · intro q r' hq e' he' h1 h2
    obtain ⟨hqp, hq'⟩ := dbGet_dbDel_some hq
    obtain ⟨e, he, k1, k2, _, hc⟩ := mem_release he'
    have hb := h.bound q r' hq' e he (k1 ▸ h1) (k2 ▸ h2)
    rcases hc with ⟨_, _, ho, _⟩ | ⟨_, ho⟩
    · rw [hb] at ho; cases ho; exact absurd rfl hqp
    · rw [ho]; exact hb
  · intro e' he' q ho
    obtain ⟨e, he, k1, k2, _, hc⟩ := mem_release he'
    rcases hc with ⟨_, _, _, hn⟩ | ⟨hn, ho'⟩
    · rw [hn] at ho; cases ho
    · rw [ho'] at ho
      obtain ⟨r', hr', e1, e2⟩ := h.recorded e he q ho
      by_cases hqp : q = p
      · subst hqp
        rw [hr] at hr'; cases hr'
        exact absurd ⟨e1, e2, ho⟩ hn
      · exact ⟨r', by show dbGet (dbDel s.db p) q = some r'; rw [dbGet_dbDel_ne _ _ _ hqp]; exact hr', k1 ▸ e1, k2 ▸ e2⟩
  · intro q1 q2 r1 r2 h1 h2 hne he ip hi hj
    exact h.noShare q1 q2 r1 r2 (dbGet_dbDel_some h1).2 (dbGet_dbDel_some h2).2 hne he ip hi hj

/-- handing back addresses nobody was bound to changes nothing -/
theorem release_unowned {pool : List Ent} (hk : KeysNodup pool) {p eni : String} {pick : List Ent}
    (hin : ∀ e ∈ pick, e ∈ pool ∧ e.eni = eni) (hfree : ∀ e ∈ pick, e.owner = none) :
    release pool p eni (pick.map (·.ip)) = pool := by
  unfold release
  conv => rhs; rw [← List.map_id pool]
  apply List.map_congr_left
  intro e he
  by_cases c : e.eni = eni ∧ e.ip ∈ pick.map (·.ip) ∧ e.owner = some p
  · exfalso
    obtain ⟨c1, c2, c3⟩ := c
    simp only [List.mem_map] at c2
    obtain ⟨pe, hpe, hip⟩ := c2
    have : pe = e := hk.eq (hin pe hpe).1 he ((hin pe hpe).2.trans c1.symm) hip
    subst this
    rw [hfree pe hpe] at c3; cases c3
  · simp only [id]; rw [if_neg c]

/-- changing only the sticky flag of a record -/
theorem Inv.of_same {s t : Svc} (h : Inv s) (hpool : t.pool = s.pool) (hdual : t.dual = s.dual)
    (hkeys : (t.db.map (·.1)).Nodup)
    (hdb : ∀ p r, dbGet t.db p = some r → ∃ r', dbGet s.db p = some r' ∧ r'.eni = r.eni ∧ r'.ips = r.ips)
    (hdb' : ∀ p r, dbGet s.db p = some r → ∃ r', dbGet t.db p = some r' ∧ r'.eni = r.eni ∧ r'.ips = r.ips) :
    Inv t := by
  refine ⟨hpool ▸ h.keys, hkeys, ?_, ?_, ?_, ?_⟩
  · intro p r hr
    obtain ⟨r', h1, _, h3⟩ := hdb p r hr
    rw [hdual, ← h3]; exact h.shape p r' h1
  · intro p r hr e he h1 h2
    obtain ⟨r', g1, g2, g3⟩ := hdb p r hr
    rw [hpool] at he
    exact h.bound p r' g1 e he (g2 ▸ h1) (g3 ▸ h2)
  · intro e he p ho
    rw [hpool] at he
    obtain ⟨r, g1, g2, g3⟩ := h.recorded e he p ho
    obtain ⟨r', f1, f2, f3⟩ := hdb' p r g1
    exact ⟨r', f1, f2 ▸ g2, f3 ▸ g3⟩
  · intro q1 q2 r1 r2 h1 h2 hne he ip hi hj
    obtain ⟨r1', a1, a2, a3⟩ := hdb q1 r1 h1
    obtain ⟨r2', b1, b2, b3⟩ := hdb q2 r2 h2
    exact h.noShare q1 q2 r1' r2' a1 b1 hne (by rw [a2, b2]; exact he) ip (a3 ▸ hi) (b3 ▸ hj)

end Terway.Daemon

namespace Terway.Daemon

/-! ### garbage collection -/

theorem dbGet_none_of_not_key {db : List (String × Rec)} {q : String} (h : q ∉ db.map (·.1)) : dbGet db q = none := by
  induction db with
  | nil => rfl
  | cons hd t ih =>
    obtain ⟨k, r⟩ := hd
    simp only [List.map_cons, List.mem_cons, not_or] at h
    simp [dbGet, Ne.symm h.1, ih h.2]

theorem mem_dbGet {db : List (String × Rec)} (hk : (db.map (·.1)).Nodup) {p : String} {r : Rec} (h : (p, r) ∈ db) :
    dbGet db p = some r := by
  induction db with
  | nil => cases h
  | cons hd t ih =>
    obtain ⟨k, r'⟩ := hd
    simp only [List.map_cons, List.nodup_cons] at hk
    rcases List.mem_cons.mp h with e | e
    · cases e; simp [dbGet]
    · have : k ≠ p := by
        intro ek; subst ek
        exact hk.1 (List.mem_map.mpr ⟨(k, r), e, rfl⟩)
      simp [dbGet, this, ih hk.2 e]

theorem gcDb_keys_sublist (crd : Bool) (g : GcView) (db : List (String × Rec)) :
    ((gcDb crd g db).map (·.1)).Sublist (db.map (·.1)) := by
  induction db with
  | nil => simp [gcDb]
  | cons hd t ih =>
    obtain ⟨p, r⟩ := hd
    unfold gcDb
    split
    · simpa using ih.cons₂ p
    · simpa using ih.cons₂ p
    · simpa using ih.cons p

/-- what a pass does to the record of pod `q` -/
def gcOut (crd : Bool) (g : GcView) (q : String) (r : Rec) : Option Rec :=
  match gcDecide crd g q r with
  | .keep => some r
  | .unstick => some { r with stick := false }
  | .collect => none

/-- the outcome of a pass for one pod depends on that pod's record only -/
theorem gcDb_get {crd : Bool} {g : GcView} {db : List (String × Rec)} (hk : (db.map (·.1)).Nodup) (q : String) :
    dbGet (gcDb crd g db) q = (dbGet db q).bind (gcOut crd g q) := by
  induction db with
  | nil => rfl
  | cons hd t ih =>
    obtain ⟨k, r⟩ := hd
    simp only [List.map_cons, List.nodup_cons] at hk
    by_cases hq : k = q
    · subst hq
      have hnone : dbGet (gcDb crd g t) k = none :=
        dbGet_none_of_not_key (fun hm => hk.1 ((gcDb_keys_sublist crd g t).subset hm))
      unfold gcDb
      cases hd : gcDecide crd g k r <;> simp [dbGet, gcOut, hd, hnone]
    · unfold gcDb
      cases hd : gcDecide crd g k r <;> simp [dbGet, hq, ih hk.2]

/-- what a pass does to one pool entry -/
def gcEnt (crd : Bool) (g : GcView) (db : List (String × Rec)) (e : Ent) : Ent :=
  if db.any (fun pr => decide (gcDecide crd g pr.1 pr.2 = .collect) && e.owner == some pr.1 && e.eni == pr.2.eni && decide (e.ip ∈ pr.2.ips))
  then { e with owner := none } else e

theorem gcPool_eq_map (crd : Bool) (g : GcView) (db : List (String × Rec)) (pool : List Ent) :
    gcPool crd g db pool = pool.map (gcEnt crd g db) := by
  induction db generalizing pool with
  | nil =>
    have : gcEnt crd g [] = id := by funext e; simp [gcEnt]
    simp [gcPool, this]
  | cons hd t ih =>
    obtain ⟨p, r⟩ := hd
    unfold gcPool
    rw [ih]
    have anyCons : ∀ e : Ent, ((p, r) :: t).any (fun pr => decide (gcDecide crd g pr.1 pr.2 = .collect) && e.owner == some pr.1 && e.eni == pr.2.eni && decide (e.ip ∈ pr.2.ips))
        = ((decide (gcDecide crd g p r = .collect) && e.owner == some p && e.eni == r.eni && decide (e.ip ∈ r.ips)) ||
           t.any (fun pr => decide (gcDecide crd g pr.1 pr.2 = .collect) && e.owner == some pr.1 && e.eni == pr.2.eni && decide (e.ip ∈ pr.2.ips))) := by
      intro e; simp [List.any_cons]
    by_cases hc : gcDecide crd g p r = .collect
    · rw [if_pos hc]
      simp only [release, List.map_map]
      apply List.map_congr_left
      intro e _
      simp only [Function.comp]
      by_cases hm : e.eni = r.eni ∧ e.ip ∈ r.ips ∧ e.owner = some p
      · rw [if_pos hm]
        simp [gcEnt, hc, hm.1, hm.2.1, hm.2.2]
      · rw [if_neg hm]
        have : (decide (gcDecide crd g p r = .collect) && e.owner == some p && e.eni == r.eni && decide (e.ip ∈ r.ips)) = false := by
          simp only [Bool.and_eq_false_iff, decide_eq_false_iff_not, beq_eq_false_iff_ne, ne_eq]
          by_cases h1 : e.eni = r.eni
          · by_cases h2 : e.ip ∈ r.ips
            · left; left; right; intro h3; exact hm ⟨h1, h2, h3⟩
            · right; exact h2
          · left; right; exact h1
        unfold gcEnt
        rw [anyCons, this, Bool.false_or]
    · rw [if_neg hc]
      apply List.map_congr_left
      intro e _
      unfold gcEnt
      rw [anyCons]
      have : decide (gcDecide crd g p r = .collect) = false := by simpa using hc
      rw [this]
      simp only [Bool.false_and, Bool.false_or]

theorem gcEnt_cases (crd : Bool) (g : GcView) (db : List (String × Rec)) (e : Ent) :
    (∃ p r, (p, r) ∈ db ∧ gcDecide crd g p r = .collect ∧ e.owner = some p ∧ e.eni = r.eni ∧ e.ip ∈ r.ips ∧
        gcEnt crd g db e = { e with owner := none }) ∨
    ((∀ p r, (p, r) ∈ db → gcDecide crd g p r = .collect → e.owner = some p → e.eni = r.eni → e.ip ∉ r.ips) ∧
        gcEnt crd g db e = e) := by
  unfold gcEnt
  split
  · rename_i h
    simp only [List.any_eq_true, Bool.and_eq_true, decide_eq_true_eq, beq_iff_eq] at h
    obtain ⟨⟨p, r⟩, hm, ⟨⟨⟨h1, h2⟩, h3⟩, h4⟩⟩ := h
    exact Or.inl ⟨p, r, hm, h1, h2, h3, h4, rfl⟩
  · rename_i h
    refine Or.inr ⟨?_, rfl⟩
    intro p r hm h1 h2 h3 h4
    apply h
    simp only [List.any_eq_true, Bool.and_eq_true, decide_eq_true_eq, beq_iff_eq]
    exact ⟨(p, r), hm, ⟨⟨⟨h1, h2⟩, h3⟩, h4⟩⟩

theorem Inv.gc_pres {s : Svc} (h : Inv s) (g : GcView) :
    Inv { s with db := gcDb s.crd g s.db, pool := gcPool s.crd g s.db s.pool } := by
  have getOld : ∀ q r, dbGet (gcDb s.crd g s.db) q = some r →
      ∃ r0, dbGet s.db q = some r0 ∧ r0.eni = r.eni ∧ r0.ips = r.ips ∧ gcDecide s.crd g q r0 ≠ .collect := by
    intro q r hq
    rw [gcDb_get h.dbKeys] at hq
    cases h0 : dbGet s.db q with
    | none => rw [h0] at hq; cases hq
    | some r0 =>
      rw [h0] at hq
      simp only [Option.bind_some, gcOut] at hq
      cases hd : gcDecide s.crd g q r0 <;> rw [hd] at hq <;> simp at hq
      · exact ⟨r0, rfl, by rw [← hq], by rw [← hq], by rw [hd]; simp⟩
      · exact ⟨r0, rfl, by rw [← hq], by rw [← hq], by rw [hd]; simp⟩
  refine ⟨?_, (gcDb_keys_sublist _ _ _).nodup h.dbKeys, ?_, ?_, ?_, ?_⟩
  · show KeysNodup (gcPool s.crd g s.db s.pool)
    rw [gcPool_eq_map]
    unfold KeysNodup
    rw [List.map_map]
    have : (key ∘ gcEnt s.crd g s.db) = key := by
      funext e; simp only [Function.comp, gcEnt, key]; split <;> rfl
    rw [this]; exact h.keys
  · intro q r hq
    obtain ⟨r0, h0, _, h2, _⟩ := getOld q r hq
    rw [← h2]; exact h.shape q r0 h0
  · intro q r hq e' he' h1 h2
    obtain ⟨r0, h0, e1, e2, hnc⟩ := getOld q r hq
    change e' ∈ gcPool s.crd g s.db s.pool at he'
    rw [gcPool_eq_map, List.mem_map] at he'
    obtain ⟨e, he, rfl⟩ := he'
    rcases gcEnt_cases s.crd g s.db e with ⟨p', r', hm, hc, ho, _, _, heq⟩ | ⟨_, heq⟩
    · rw [heq] at h1 h2
      have hb := h.bound q r0 h0 e he (by rw [e1]; exact h1) (by rw [e2]; exact h2)
      rw [hb] at ho; cases ho
      have := mem_dbGet h.dbKeys hm
      rw [h0] at this; cases this
      exact absurd hc hnc
    · rw [heq] at h1 h2 ⊢
      exact h.bound q r0 h0 e he (by rw [e1]; exact h1) (by rw [e2]; exact h2)
  · intro e' he' q ho
    change e' ∈ gcPool s.crd g s.db s.pool at he'
    rw [gcPool_eq_map, List.mem_map] at he'
    obtain ⟨e, he, rfl⟩ := he'
    rcases gcEnt_cases s.crd g s.db e with ⟨_, _, _, _, _, _, _, heq⟩ | ⟨hno, heq⟩
    · rw [heq] at ho; cases ho
    · rw [heq] at ho ⊢
      obtain ⟨r0, h0, e1, e2⟩ := h.recorded e he q ho
      have hnc : gcDecide s.crd g q r0 ≠ .collect := fun hc => hno q r0 (dbGet_mem h0) hc ho e1 e2
      show ∃ r, dbGet (gcDb s.crd g s.db) q = some r ∧ _
      rw [gcDb_get h.dbKeys, h0]
      simp only [Option.bind_some, gcOut]
      cases hd : gcDecide s.crd g q r0
      · exact ⟨r0, rfl, e1, e2⟩
      · exact ⟨{ r0 with stick := false }, rfl, e1, e2⟩
      · exact absurd hd hnc
  · intro q1 q2 r1 r2 h1 h2 hne he ip hi hj
    obtain ⟨a, a0, a1, a2, _⟩ := getOld q1 r1 h1
    obtain ⟨b, b0, b1, b2, _⟩ := getOld q2 r2 h2
    exact h.noShare q1 q2 a b a0 b0 hne (by rw [a1, b1]; exact he) ip (a2 ▸ hi) (b2 ▸ hj)

end Terway.Daemon

namespace Terway.Daemon

/-! ### restart -/

theorem ownerOf_some {db : List (String × Rec)} {eni : String} {ip : Nat} {p : String}
    (h : ownerOf db eni ip = some p) : ∃ r, (p, r) ∈ db ∧ r.eni = eni ∧ ip ∈ r.ips := by
  induction db with
  | nil => simp [ownerOf] at h
  | cons hd t ih =>
    obtain ⟨q, r⟩ := hd
    unfold ownerOf at h
    split at h
    · rename_i hc
      cases h
      exact ⟨r, by simp, hc.1, hc.2⟩
    · obtain ⟨r', hm, h1, h2⟩ := ih h
      exact ⟨r', List.mem_cons_of_mem _ hm, h1, h2⟩

theorem ownerOf_ne_none {db : List (String × Rec)} {eni : String} {ip : Nat} {p : String} {r : Rec}
    (hm : (p, r) ∈ db) (h1 : r.eni = eni) (h2 : ip ∈ r.ips) : ownerOf db eni ip ≠ none := by
  induction db with
  | nil => cases hm
  | cons hd t ih =>
    obtain ⟨q, r'⟩ := hd
    unfold ownerOf
    split
    · simp
    · rename_i hc
      rcases List.mem_cons.mp hm with e | e
      · cases e; exact absurd ⟨h1, h2⟩ hc
      · exact ih e

theorem ownerOf_none {db : List (String × Rec)} {eni : String} {ip : Nat}
    (h : ∀ p r, (p, r) ∈ db → ¬ (r.eni = eni ∧ ip ∈ r.ips)) : ownerOf db eni ip = none := by
  cases ho : ownerOf db eni ip with
  | none => rfl
  | some p =>
    obtain ⟨r, hm, h1, h2⟩ := ownerOf_some ho
    exact absurd ⟨h1, h2⟩ (h p r hm)

/-- with one record per pod and no shared addresses, the owner found is the pod whose record names the address -/
theorem ownerOf_eq {db : List (String × Rec)} (hk : (db.map (·.1)).Nodup) (hn : NoShare db)
    {p : String} {r : Rec} (hr : dbGet db p = some r) {ip : Nat} (hi : ip ∈ r.ips) :
    ownerOf db r.eni ip = some p := by
  cases ho : ownerOf db r.eni ip with
  | none => exact absurd ho (ownerOf_ne_none (dbGet_mem hr) rfl hi)
  | some q =>
    obtain ⟨r', hm, h1, h2⟩ := ownerOf_some ho
    by_cases hqp : q = p
    · rw [hqp]
    · exact absurd h2 (hn p q r r' hr (mem_dbGet hk hm) (Ne.symm hqp) h1.symm ip hi)

theorem mem_restart_pool {s : Svc} {cloud : List (String × Nat)} {e : Ent} (h : e ∈ (restart s cloud).pool) :
    (e.eni, e.ip) ∈ cloud ∧ e.valid = true ∧ e.owner = ownerOf s.db e.eni e.ip := by
  simp only [restart, List.mem_map] at h
  obtain ⟨⟨eni, ip⟩, hm, rfl⟩ := h
  exact ⟨hm, rfl, rfl⟩

theorem Inv.restart_pres {s : Svc} (hk : (s.db.map (·.1)).Nodup) (hs : ∀ p r, dbGet s.db p = some r → Shape s.dual r.ips)
    (hn : NoShare s.db) {cloud : List (String × Nat)} (hc : cloud.Nodup) : Inv (restart s cloud) := by
  refine ⟨?_, hk, hs, ?_, ?_, hn⟩
  · show KeysNodup (restart s cloud).pool
    unfold KeysNodup
    simp only [restart, List.map_map]
    have : (key ∘ fun (x : String × Nat) => ({ eni := x.1, ip := x.2, owner := ownerOf s.db x.1 x.2, valid := true } : Ent)) = id := by
      funext x; simp [key]
    rw [this, List.map_id]; exact hc
  · intro p r hr e he h1 h2
    obtain ⟨_, _, ho⟩ := mem_restart_pool he
    rw [ho, h1]
    exact ownerOf_eq hk hn hr h2
  · intro e he p ho
    obtain ⟨_, _, ho'⟩ := mem_restart_pool he
    rw [ho'] at ho
    obtain ⟨r, hm, h1, h2⟩ := ownerOf_some ho
    exact ⟨r, mem_dbGet hk hm, h1.symm, h2⟩

end Terway.Daemon

namespace Terway.Daemon

/-! ### histories -/

/-- requests the invariant is proved for: every kind except a failing ADD that keeps what it took
    (the defect repaired in `Manager.Allocate`) -/
def Kind.Good : Kind → Prop
  | .addFail _ back => back = true
  | _ => True

def Op.Good : Op → Prop
  | .req k _ _ _ => k.Good
  | .leave k _ _ _ => k.Good
  | .enter _ => True
  | .gc _ => True
  | .restart c => c.Nodup
  | .crash k _ _ _ _ c => k.Good ∧ c.Nodup

theorem Inv.of_pending {s : Svc} (h : Inv s) (l : List String) : Inv { s with pending := l } :=
  ⟨h.keys, h.dbKeys, h.shape, h.bound, h.recorded, h.noShare⟩

theorem addFail_good_noop {s : Svc} (h : Inv s) {p : String} {pick : List Ent} :
    (addFailBody s p pick true).1 = s := by
  unfold addFailBody
  by_cases h0 : pick = []
  · simp [h0]
  · rw [if_neg h0]
    by_cases hp : pickOK s p pick = true
    · rw [if_pos hp]
      obtain ⟨eni, sp⟩ := pickOK_spec hp
      simp only [if_true]
      rw [sp.head]
      have : release s.pool p eni ((pick.filter fun e => e.owner = none || !(recordedFor s p e)).map (·.ip)) = s.pool :=
        release_unowned h.keys
          (fun e he => ⟨(sp.each e (List.mem_filter.mp he).1).mem, (sp.each e (List.mem_filter.mp he).1).onEni⟩)
          (fun e he => by
            have hm := List.mem_filter.mp he
            rcases (sp.each e hm.1).owner_cases with ho | ho
            · -- bound to the pod: the invariant says it is recorded, so the filter dropped it
              exfalso
              obtain ⟨r, hr, he1, he2⟩ := h.recorded e (sp.each e hm.1).mem p ho
              have hrec : recordedFor s p e = true := by
                unfold recordedFor; rw [hr]; simp [he1, he2]
              have := hm.2
              rw [ho, hrec] at this
              simp at this
            · exact ho)
      rw [this]
    · rw [if_neg hp]

theorem Inv.body_pres {s : Svc} (h : Inv s) {k : Kind} (hk : k.Good) (p cid : String) (v : PodGet) :
    Inv (body s k p cid v).1 := by
  cases k with
  | add pick =>
    simp only [body, addBody]
    cases v with
    | found stick =>
      simp only
      by_cases h0 : pick = []
      · rw [if_pos h0]; exact h
      · rw [if_neg h0]
        by_cases hp : pickOK s p pick = true
        · rw [if_pos hp]
          obtain ⟨eni, sp⟩ := pickOK_spec hp
          simp only [sp.head]
          exact h.add_pres sp
        · rw [if_neg hp]; exact h
    | notFound => exact h
    | error => exact h
  | addFail pick back =>
    have hb : back = true := hk
    subst hb
    simp only [body]
    rw [addFail_good_noop h]; exact h
  | del =>
    simp only [body, delBody]
    cases v with
    | error => exact h
    | notFound => exact h
    | found stick =>
      simp only
      cases hr : dbGet s.db p with
      | none => exact h
      | some r =>
        simp only
        by_cases hc : cid ≠ r.cid
        · rw [if_pos hc]; exact h
        · rw [if_neg hc]
          by_cases hs : s.crd = true ∨ (!stick) = true
          · rw [if_pos hs]; exact h.collectOne_pres hr
          · rw [if_neg hs]; exact h
  | get =>
    simp only [body, getBody]
    cases v with
    | found stick =>
      simp only
      cases hr : dbGet s.db p with
      | none => exact h
      | some r =>
        simp only
        split <;> exact h
    | notFound => exact h
    | error => exact h

theorem body_dual (s : Svc) (k : Kind) (p cid : String) (v : PodGet) : (body s k p cid v).1.dual = s.dual := by
  cases k <;> simp only [body, addBody, addFailBody, delBody, getBody]
  · cases v <;> simp only <;> (repeat' split) <;> rfl
  · (repeat' split) <;> rfl
  · cases v <;> simp only <;> (repeat' split) <;> rfl
  · cases v <;> simp only <;> (repeat' split) <;> rfl

theorem Inv.apply_pres {s : Svc} (h : Inv s) {op : Op} (hg : op.Good) : Inv (apply s op) := by
  cases op with
  | req k p cid v =>
    simp only [apply, request]
    split
    · exact h
    · exact h.body_pres hg p cid v
  | enter p =>
    simp only [apply, enter]
    split
    · exact h
    · exact h.of_pending _
  | leave k p cid v =>
    simp only [apply]
    split
    · simp only [leave]; exact (h.body_pres hg p cid v).of_pending _
    · exact h
  | gc g =>
    simp only [apply, gcPass]
    split
    · exact h
    · exact h.gc_pres g
  | restart c => exact Inv.restart_pres h.dbKeys h.shape h.noShare hg
  | crash k p cid v w c =>
    obtain ⟨hk, hc⟩ := hg
    simp only [apply, crash]
    have hb := h.body_pres hk p cid v
    cases w with
    | true =>
      simp only [if_true]
      exact Inv.restart_pres (s := { s with db := (body s k p cid v).1.db }) hb.dbKeys
        (fun q r hq => by have := hb.shape q r hq; rwa [body_dual] at this) hb.noShare hc
    | false =>
      simp only [Bool.false_eq_true, if_false]
      exact Inv.restart_pres h.dbKeys h.shape h.noShare hc

theorem Inv.boot_pres (crd dual : Bool) {cloud : List (String × Nat)} (hc : cloud.Nodup) : Inv (boot crd dual cloud) :=
  Inv.restart_pres (s := { db := [], pool := [], pending := [], crd := crd, dual := dual }) (by simp)
    (by intro p r h; simp [dbGet] at h) (by intro p q r1 r2 h; simp [dbGet] at h) hc

/-- every history of good events keeps the invariant -/
theorem Inv.run_pres {s : Svc} (h : Inv s) {ops : List Op} (hg : ∀ op ∈ ops, op.Good) : Inv (run s ops) := by
  induction ops generalizing s with
  | nil => exact h
  | cons op rest ih =>
    simp only [run, List.foldl_cons]
    exact ih (h.apply_pres (hg op (by simp))) (fun o ho => hg o (by simp [ho]))

end Terway.Daemon

namespace Terway.Daemon

theorem Shape.eq_of_subset {d : Bool} {l1 l2 : List Nat} (h1 : Shape d l1) (h2 : Shape d l2)
    (hs : ∀ a ∈ l1, a ∈ l2) : l1 = l2 := by
  rcases h1 with ⟨d1, a, rfl, ha⟩ | ⟨d1, a, b, rfl, ha, hb⟩ <;>
    rcases h2 with ⟨d2, x, rfl, hx⟩ | ⟨d2, x, y, rfl, hx, hy⟩
  · have := hs a (by simp); simp at this; rw [this]
  · rw [d1] at d2; cases d2
  · rw [d1] at d2; cases d2
  · have h1 := hs a (by simp)
    have h2 := hs b (by simp)
    simp at h1 h2
    have : a = x := by rcases h1 with e | e; exact e; omega
    have : b = y := by rcases h2 with e | e; omega; exact e
    simp [*]


end Terway.Daemon
