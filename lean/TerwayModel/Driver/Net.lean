import TerwayModel.Driver.Common
import TerwayModel.Model.Net
namespace Terway.Drv.Net
open Terway.Net Terway.Drv

def keyStr (k : Key) : String := s!"{k.off}:{toHex 8 k.mask.toNat}:{toHex 8 k.val.toNat}"

/-- one op per line; `none` = malformed line -/
def step (op : String) (args : List String) : Option String :=
  match op, args with
  | "u32v4", [ip, n] => do
    let ip ← hexNat? ip; let n ← n.toNat?
    if n > 32 then none else
    pure (keyStr (u32v4Src (BitVec.ofNat 32 ip) n))
  | "dst4", [ip, n] => do
    let ip ← hexNat? ip; let n ← n.toNat?
    if n > 32 then none else
    pure (keyStr (u32v4Dst (BitVec.ofNat 32 ip) n))
  | "keep4", [ip, n, ip', n'] => do
    let ip ← hexNat? ip; let n ← n.toNat?; let ip' ← hexNat? ip'; let n' ← n'.toNat?
    if n > 32 || n' > 32 then none else
    pure (if keepsInstalled (BitVec.ofNat 32 ip) n (BitVec.ofNat 32 ip') n' then "keep" else "replace")
  | "u32v6", [w0, w1, w2, w3, n] => do
    let ws ← [w0, w1, w2, w3].mapM hexNat?
    let n ← n.toNat?
    if n > 128 then none else
    let ks := u32v6Src (ws.map (BitVec.ofNat 32)) n
    pure (if ks.isEmpty then "-" else ",".intercalate (ks.map keyStr))
  | "gw", [w, addr, n] => do
    let w ← w.toNat?; let addr ← hexNat? addr; let n ← n.toNat?
    if n > w then none else
    pure (match deriveGateway w addr n with
      | none => "none"
      | some g => toHex (w / 4) g)
  | "table", [i] => do
    let i ← i.toNat?
    pure (toString (tableID i))
  | "veth", [pfx, ns, name, ifn] => do
    let pfx ← strHex? pfx
    let ns ← hexBytes? ns; let name ← hexBytes? name; let ifn ← hexBytes? ifn
    pure (String.ofList (vethName pfx.toList ns name ifn))
  | _, _ => none

end Terway.Drv.Net
