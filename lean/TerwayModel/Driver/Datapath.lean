import TerwayModel.Driver.Common
import TerwayModel.Model.Fib
namespace Terway.Drv.DatapathD
open Terway.Datapath Terway.Fib Terway.Drv

def famOf? : String → Option Fam
  | "4" => some .v4 | "6" => some .v6 | _ => none

def famStr : Fam → String
  | .v4 => "4" | .v6 => "6"

def addrHex (f : Fam) (a : Nat) : String := toHex (f.bits / 4) a

def pfxStr (p : Pfx) : String := s!"{famStr p.fam}:{addrHex p.fam p.addr}/{p.len}"

/-- `4:hex/len` -/
def pfx? (s : String) : Option Pfx :=
  match s.splitOn ":" with
  | [f, rest] =>
    match rest.splitOn "/" with
    | [a, n] => do pure { fam := (← famOf? f), addr := (← hexNat? a), len := (← n.toNat?) }
    | _ => none
  | _ => none

def ipLen? (s : String) : Option (Option (Nat × Nat)) :=
  if s = "-" then some none else
  match s.splitOn "/" with
  | [a, n] => do pure (some ((← hexNat? a), (← n.toNat?)))
  | _ => none

def optHex? (s : String) : Option (Option Nat) := if s = "-" then some none else (hexNat? s).map some

def extra? (s : String) : Option (List (Pfx × Option Nat)) :=
  if s = "-" then some [] else
  (s.splitOn ",").mapM fun e =>
    match e.splitOn ">" with
    | [d, g] => do pure ((← pfx? d), (← optHex? g))
    | _ => none

def cfg? (s : String) : Option Cfg :=
  match s.splitOn ";" with
  | [ip4, ip6, gw4, gw6, h4, h6, eg4, eg6, strip, dr, multi, extra, ifn] => do
    pure { ip4 := (← ipLen? ip4), ip6 := (← ipLen? ip6), gw4 := (← optHex? gw4), gw6 := (← optHex? gw6),
           host4 := (← optHex? h4), host6 := (← optHex? h6), eniGw4 := (← optHex? eg4), eniGw6 := (← optHex? eg6),
           stripVlan := (← bool? strip), defaultRoute := (← bool? dr), multiNetwork := (← bool? multi),
           extra := (← extra? extra), ifName := (← strHex? ifn) }
  | _ => none

def optAddr (f : Fam) : Option Nat → String
  | none => "-"
  | some a => addrHex f a

def routeStr (r : Route) : String :=
  s!"t{r.table},d{pfxStr r.dst},g{optAddr r.dst.fam r.gw},dev{r.dev}," ++ (if r.scopeLink then "L" else "U") ++ "," ++ (if r.onlink then "O" else "-")

def optPfx : Option Pfx → String
  | none => "-"
  | some p => pfxStr p

def ruleStr (r : Rule) : String :=
  s!"p{r.prio},s{optPfx r.src},d{optPfx r.dst},o" ++ (match r.oif with | none => "-" | some n => bytesToHex n.toUTF8.toList) ++ s!",t{r.table}"

def macStr : MacKind → String
  | .peer => "peer" | .own => "own" | .fixed => "fixed"

def neighStr (n : Neigh) : String := s!"{famStr n.fam}:{addrHex n.fam n.ip},dev{n.dev},{macStr n.mac}"

def addrStr (a : Addr) : String := pfxStr a.pfx ++ (if a.special then "*" else "")

/-- `utils.GenerateIPv6Sysctl`, as sorted `path=value` -/
def sysctlList : Option (String × Bool × Bool) → List String
  | none => []
  | some (ifn, ra, fwd) =>
    let base := ["lo", "all", "default"].map fun n => s!"/proc/sys/net/ipv6/conf/{n}/disable_ipv6=0"
    let own := if ifn = "" then [] else
      [s!"/proc/sys/net/ipv6/conf/{ifn}/disable_ipv6=0"] ++
      (if ra then [s!"/proc/sys/net/ipv6/conf/{ifn}/accept_ra=0"] else []) ++
      (if fwd then [s!"/proc/sys/net/ipv6/conf/{ifn}/forwarding=1"] else [])
    (base ++ own).eraseDups.mergeSort (fun a b => decide (a ≤ b))

def join (l : List String) : String := if l.isEmpty then "-" else " ".intercalate l

def confStr (c : Conf) : String :=
  "if=" ++ (if c.ifName = "" then "-" else bytesToHex c.ifName.toUTF8.toList) ++
  " | addrs " ++ join (c.addrs.map addrStr) ++ " | routes " ++ join (c.routes.map routeStr) ++
  " | rules " ++ join (c.rules.map ruleStr) ++ " | neighs " ++ join (c.neighs.map neighStr) ++
  " | sysctl " ++ join (sysctlList c.sysctl6) ++ " | strip=" ++ boolStr c.stripVlan

structure FibSt where
  host : Host := { rules := [mainRule], routes := [] }
  pods : List (String × Pod) := []

def optPfx? (s : String) : Option (Option Pfx) := if s = "-" then some none else (pfx? s).map some

def ruleLine (r : Rule) : String := s!"p{r.prio},s{optPfx r.src},d{optPfx r.dst},t{r.table}"

def fibStep (st : FibSt) (op : String) (args : List String) : Option (FibSt × String) :=
  match op, args with
  | "reset", [] => some ({}, "ok")
  | "stale", [prio, src, dst, table] => do
    let r : Rule := { prio := (← prio.toNat?), src := (← optPfx? src), dst := (← optPfx? dst), table := (← table.toNat?) }
    pure ({ st with host := { st.host with rules := st.host.rules ++ [r] } }, "ok")
  | "setup", [id, cfg, veth, eni] => do
    let p : Pod := { cfg := (← cfg? cfg), veth := (← veth.toNat?), eni := (← eni.toNat?) }
    pure ({ host := setupPod st.host p, pods := (id, p) :: st.pods.filter (·.1 ≠ id) }, "ok")
  | "teardown", [id] => do
    let p ← st.pods.lookup id
    pure ({ host := teardown p st.host, pods := st.pods.filter (·.1 ≠ id) }, "ok")
  | "legacy", [prio, src, dst, table] => do
    let r : Rule := { prio := (← prio.toNat?), src := (← optPfx? src), dst := (← optPfx? dst), oif := some "gone", table := (← table.toNat?) }
    pure ({ st with host := { st.host with rules := st.host.rules ++ [r] } }, "ok")
  | "clean", [] => pure ({ st with host := { st.host with rules := cleanRules st.host.rules } }, "ok")
  | "sync", ids => do
    let ps ← ids.mapM fun id => st.pods.lookup id
    pure ({ st with host := ruleSync st.host ps }, "ok")
  | "rules", [] =>
    let rs := (st.host.rules.filter fun r => r != mainRule).map ruleLine
    some (st, join (rs.mergeSort fun a b => decide (a ≤ b)))
  | "get", [fam, src, dst, _iif] => do
    let f ← famOf? fam
    let k : Pkt := { fam := f, src := (← hexNat? src), dst := (← hexNat? dst) }
    pure (st, match lookup st.host k with
      | none => "none"
      | some rt => s!"dev{rt.dev},g{optAddr f rt.gw}")
  | _, _ => none

def step (op : String) (args : List String) : Option String :=
  match op, args with
  | "gen", [which, cfg, link, name, table] => do
    let c ← cfg? cfg
    let link ← link.toNat?
    let name ← strHex? name
    let table ← table.toNat?
    let conf ← match which with
      | "contPolicy" => some (genContPolicy c link)
      | "hostPeerPolicy" => some (genHostPeerPolicy c link name table)
      | "eniPolicy" => some (genENIPolicy c link name table)
      | "contIPVlan" => some (genContIPVlan c link)
      | "slaveIPVlan" => some (genSlaveIPVlan c link)
      | "eniIPVlan" => some (genENIIPVlan c name)
      | "contExclusive" => some (genContExclusive c link)
      | "contVlan" => some (genContVlan c link)
      | _ => none
    pure (confStr conf)
  | _, _ => none

end Terway.Drv.DatapathD
