import TerwayModel.Driver.Common
import TerwayModel.Model.Pool
/-!
Driver for the pool model: every line is one lock region of a real `eni.Local` as the harness recorded it,
followed (after `|`) by the Local's state at the end of the region.  The driver reads the choices the code
left to map order off the recorded state (which address was picked, which were marked), runs
`Pool.step` with them and prints the model's state of that slot — which must equal the recorded one.
-/
namespace Terway.Drv.PoolD
open Terway.Pool Terway.Drv

structure St where
  pool : Pool := Pool.init { cap := 0, batch := 0, en4 := true, en6 := false } 0
  /-- the dispose worker's stale IPv6 batch, per slot -/
  fdU6 : List (Nat × List Nat) := []
  /-- the factory worker's stale IPv6 count, per slot -/
  faV6 : List (Nat × Nat) := []
  bal : Option Bal := none
  maxIdles : Nat := 0
  minIdles : Nat := 0
  total : Nat := 0

def list? (s : String) (sep : String) : List String := if s = "-" then [] else s.splitOn sep
def nats? (s : String) (sep : String := "+") : Option (List Nat) := (list? s sep).mapM (·.toNat?)
def natsStr (l : List Nat) : String := if l.isEmpty then "-" else "+".intercalate (l.map toString)
def joinD (l : List String) : String := if l.isEmpty then "-" else ",".intercalate l

def stStr : IPSt → String
  | .valid => "v" | .invalid => "i" | .deleting => "d"
def st? : String → Option IPSt
  | "v" => some .valid | "i" => some .invalid | "d" => some .deleting | _ => none
def estStr : ESt → String
  | .init => "init" | .creating => "creating" | .inUse => "inUse" | .deleting => "deleting"
def est? : String → Option ESt
  | "init" => some .init | "creating" => some .creating | "inUse" => some .inUse | "deleting" => some .deleting | _ => none

def insertIP (x : IP) : List IP → List IP
  | [] => [x]
  | y :: ys => if x.ip < y.ip then x :: y :: ys else y :: insertIP x ys
def sortIPs (l : List IP) : List IP := l.foldr insertIP []

def ipStr (a : IP) : String := s!"{a.ip}:{a.owner.getD "-"}:{stStr a.st}:{boolStr a.primary}"
def ip? (t : String) : Option IP :=
  match t.splitOn ":" with
  | [i, o, s, p] => do pure { ip := ← i.toNat?, owner := if o = "-" then none else some o, st := ← st? s, primary := ← bool? p }
  | _ => none

/-- a queue as recorded: ids in order, `x` after a request whose worker is gone -/
def qStr (dn : List Nat) (q : List Nat) : String :=
  if q.isEmpty then "-" else "+".intercalate (q.map fun r => toString r ++ (if r ∈ dn then "x" else ""))

def snapStrD (dn : List Nat) (s : Slot) : String :=
  s!"e={s.eni.getD "-"} st={estStr s.status} inh={boolStr s.inhibit} ips={joinD ((sortIPs s.ips).map ipStr)} " ++
  s!"a4={qStr dn s.alloc4} a6={qStr dn s.alloc6} d4={qStr dn s.dang4} d6={qStr dn s.dang6}"

def q? (s : String) : Option (List Nat × List Nat) := do
  let ts := list? s "+"
  let ids ← ts.mapM fun t => (if t.endsWith "x" then (t.dropEnd 1).toString else t).toNat?
  let dn ← (ts.filter (·.endsWith "x")).mapM fun t => ((t.dropEnd 1).toString).toNat?
  pure (ids, dn)

def kv? (t k : String) : Option String := if t.startsWith (k ++ "=") then some ((t.drop (k.length + 1)).toString) else none

/-- the recorded state and the requests it marks as finished -/
def snap? (ts : List String) : Option (Slot × List Nat) :=
  match ts with
  | [e, st, inh, ips, a4, a6, d4, d6] => do
    let e ← kv? e "e"
    let a4 ← q? (← kv? a4 "a4")
    let a6 ← q? (← kv? a6 "a6")
    let d4 ← q? (← kv? d4 "d4")
    let d6 ← q? (← kv? d6 "d6")
    pure ({ eni := if e = "-" then none else some e, status := ← est? (← kv? st "st"), inhibit := ← bool? (← kv? inh "inh"),
            ips := ← (list? (← kv? ips "ips") ",").mapM ip?,
            alloc4 := a4.1, alloc6 := a6.1, dang4 := d4.1, dang6 := d6.1 }, a4.2 ++ a6.2 ++ d4.2 ++ d6.2)
  | _ => none

/-- split a line's arguments at `|` -/
def splitBar (args : List String) : List String × List String :=
  (args.takeWhile (· ≠ "|"), (args.dropWhile (· ≠ "|")).drop 1)

def code? : String → Option (Option Code)
  | "-" => some none
  | "err" => some (some .none)
  | "enilimit" => some (some .eniLimit)
  | "ipexhausted" => some (some .ipExhausted)
  | _ => none

def fams (c : Cfg) : List Bool := (if c.en4 then [false] else []) ++ (if c.en6 then [true] else [])

/-- which entries (of the state before) a request of `pod` was served with, read off the state after -/
def inferPick (c : Cfg) (pre post : Slot) (pod : String) : List IP :=
  (fams c).filterMap fun six =>
    let newly := (fam six pre.ips).find? fun a => a.owner != some pod && (post.ips.any fun b => b.ip == a.ip && b.owner == some pod)
    match newly with
    | some a => some a
    | none => (fam six pre.ips).find? fun a => a.owner == some pod && (post.ips.any fun b => b.ip == a.ip && b.owner == some pod)

/-- entries the pod held before and does not hold after -/
def inferLost (c : Cfg) (pre post : Slot) (pod : String) : List IP :=
  (fams c).filterMap fun six =>
    (fam six pre.ips).find? fun a => a.owner == some pod && (post.ips.any fun b => b.ip == a.ip && b.owner != some pod)

def marksOf (pre post : Slot) (six : Bool) : List Nat :=
  ((fam six pre.ips).filter fun a => a.st != .deleting && (post.ips.any fun b => b.ip == a.ip && b.st == .deleting)).map (·.ip)

def snapStr (p : Pool) (i : Nat) : String := snapStrD p.done (p.slot i)
def okSlot (st : St) (p : Pool) (i : Nat) : Option (St × String) := some ({ st with pool := p }, snapStr p i)

def lookupN (l : List (Nat × α)) (i : Nat) : Option α := (l.find? (·.1 == i)).map (·.2)
def setN (l : List (Nat × α)) (i : Nat) (v : α) : List (Nat × α) := (i, v) :: l.filter (·.1 != i)

def insertS (x : String) : List String → List String
  | [] => [x]
  | y :: ys => if x < y then x :: y :: ys else y :: insertS x ys
def sortS (l : List String) : List String := l.foldr insertS []

def step (st : St) (op : String) (args : List String) : Option (St × String) :=
  let (a, obs) := splitBar args
  let p := st.pool
  match op, a with
  | "init", [cap, batch, e4, e6, n, maxI, minI, total] => do
    let cfg : Cfg := { cap := ← cap.toNat?, batch := ← batch.toNat?, en4 := ← bool? e4, en6 := ← bool? e6 }
    pure ({ pool := Pool.init cfg (← n.toNat?), maxIdles := ← maxI.toNat?, minIdles := ← minI.toNat?, total := ← total.toNat? }, "ok")
  | "alloc", [i, rid, pod, nc, pin, acc] => do
    let i ← i.toNat?
    let (post, _) ← snap? obs
    let pod := if pod = "-" then "" else pod
    let r : Req := { id := ← rid.toNat?, pod := pod, nocache := ← bool? nc }
    let pre := p.slot i
    let out : AllocOut :=
      if !(← bool? acc) then .rejected
      else if r.id ∈ post.alloc4 ∨ r.id ∈ post.alloc6 then .queued
      else .direct (inferPick p.cfg pre post pod)
    match p.step (.allocate i r (if pin = "-" then "" else pin) out) with
    | some p' => okSlot st p' i
    | none => some (st, "reject " ++ reprStr out)
  | "commit", [i, rid] => do
    let i ← i.toNat?
    let (post, _) ← snap? obs
    let rid ← rid.toNat?
    let c ← p.commits.find? (·.req == rid)
    -- handed over iff the picked entries are bound to the pod afterwards
    let delivered := c.pick.all fun ip => post.ips.any fun b => b.ip == ip && b.owner == some c.pod
    match p.step (.commit rid delivered) with
    | some p' => okSlot st p' i
    | none => some (st, "reject")
  | "w", [i, rid] => do
    let i ← i.toNat?
    let r ← rid.toNat?
    let (post, postDone) ← snap? obs
    let pre := p.slot i
    let inQ := fun (s : Slot) => r ∈ s.alloc4 || r ∈ s.alloc6 || r ∈ s.dang4 || r ∈ s.dang6
    -- the worker is still there afterwards (it went back to waiting), or was gone before: nothing happened
    if (inQ post && r ∉ postDone) || !inQ pre then some (st, snapStr p i) else
    let rq ← p.req? r
    let got := (fams p.cfg).any fun six => (fam six pre.ips).any fun a =>
      a.owner != some rq.pod && (post.ips.any fun b => b.ip == a.ip && b.owner == some rq.pod)
    let ev : Ev :=
      if rq.nocache then .workerExit i r
      else if got then .workerServe i r (inferPick p.cfg pre post rq.pod) true
      else .workerExit i r
    let obsStr := " ".intercalate obs
    match p.step ev with
    | some p' =>
      if snapStr p' i == obsStr then okSlot st p' i
      else
        -- served with what the pod already holds (repeat request): same owners, different bookkeeping
        let alts : List Ev := [.workerServe i r (inferPick p.cfg pre post rq.pod) true,
                               .workerServe i r ((fams p.cfg).filterMap fun six => (fam six pre.ips).find? fun a => peekOK pre.ips rq.pod six a) false]
        match alts.filterMap (fun e => (p.step e).filter fun q => snapStr q i == obsStr) with
        | q :: _ => okSlot st q i
        | [] => okSlot st p' i
    | none => some (st, "reject " ++ reprStr ev)
  | "fa", ["head", i] => do
    let i ← i.toNat?
    match p.step (.faHead i) with
    | some p' => okSlot st p' i
    | none => some (st, "reject")
  | "fa", "slept" :: i :: next :: [] => do
    let i ← i.toNat?
    let pre := p.slot i
    let plan := pre.faPlan p.cfg p.done
    let want := match plan with
      | .create v4n v6n => s!"create:{v4n}:{v6n}"
      | .assign v4n v6n => if v4n > 0 then s!"assign4:{v4n}" else if v6n > 0 then s!"assign6:{v6n}" else "-"
    if next != want then some (st, s!"reject plan {want}") else
    match p.step (.faPlanned i) with
    | some p' =>
      let v6n := match plan with | .assign v4n v6n => if v4n > 0 then v6n else 0 | _ => 0
      okSlot { st with faV6 := setN st.faV6 i v6n } p' i
    | none => some (st, "reject")
  | "fa", ["created", i, v4n, v6n, eni, primary, v4, v6, err, next] => do
    let i ← i.toNat?
    let res : CreateRes := { eni := if eni = "-" then none else some eni, primary := ← primary.toNat?,
                             v4 := ← nats? v4, v6 := ← nats? v6, err := ← code? err }
    if next != "-" then some (st, "reject next") else
    match p.step (.faCreated i (← v4n.toNat?) (← v6n.toNat?) res) with
    | some p' => okSlot st p' i
    | none => some (st, "reject")
  | "fa", ["assigned4", i, ips, err, next] => do
    let i ← i.toNat?
    let res : AssignRes := { ips := ← nats? ips, err := ← code? err }
    let v6n := (lookupN st.faV6 i).getD 0
    let want := if res.err.isNone && v6n > 0 then s!"assign6:{v6n}" else "-"
    if next != want then some (st, s!"reject next {want}") else
    match p.step (.faAssigned i false res (want == "-")) with
    | some p' => okSlot { st with faV6 := setN st.faV6 i 0 } p' i
    | none => some (st, "reject")
  | "fa", ["assigned6", i, ips, err, next] => do
    let i ← i.toNat?
    let res : AssignRes := { ips := ← nats? ips, err := ← code? err }
    if next != "-" then some (st, "reject next") else
    match p.step (.faAssigned i true res true) with
    | some p' => okSlot st p' i
    | none => some (st, "reject")
  | "fd", i :: inp :: next :: [] => do
    let i ← i.toNat?
    let stale := if inp.startsWith "unassigned4" then (lookupN st.fdU6 i).getD [] else []
    let toHead := stale.isEmpty
    -- 1. apply the result of the call that just returned (and run on to the head of the loop)
    let p1 : Option Pool :=
      match inp.splitOn ":" with
      | ["wake"] => p.step (.fdHead i)
      | ["deleted", ok] => do p.step (.fdDeleted i (← bool? ok))
      | ["unassigned4", ips, ok] => do p.step (.fdUnassigned i (← nats? ips) (← bool? ok) toHead)
      | ["unassigned6", ips, ok] => do p.step (.fdUnassigned i (← nats? ips) (← bool? ok) true)
      | _ => none
    match p1 with
    | none => some (st, "reject result")
    | some p1 =>
      let s := p1.slot i
      -- 2. what it does next
      if !stale.isEmpty then
        if next == "unassign6:" ++ natsStr stale then okSlot { st with fdU6 := setN st.fdU6 i [] } p1 i
        else some (st, "reject next unassign6:" ++ natsStr stale)
      else
        let plan : Option FdPlan :=
          match next.splitOn ":" with
          | ["-"] => some .wait
          | ["delete", e] => some (.delete e)
          | ["unassign4", u4, u6] => do
            -- the IPv6 batch is read off the later call; when nothing was marked in that family there was none
            let d6 := deletingOf (fam true s.ips)
            let u6 ← nats? u6
            pure (.unassign (← nats? u4) (if d6.isEmpty then [] else u6))
          | ["unassign6", u6] => do pure (.unassign [] (← nats? u6))
          | _ => none
        match plan with
        | none => some (st, "reject next-syntax")
        | some pl =>
          if s.fdPlanOK p1.cfg p1.done pl then
            let u6 := match pl with | .unassign u4 u6 => if u4.isEmpty then [] else u6 | _ => []
            okSlot { st with fdU6 := setN st.fdU6 i u6 } p1 i
          else some (st, "reject plan " ++ reprStr pl)
  | "rel", [i, eni, pod, ips] => do
    let i ← i.toNat?
    match p.step (.release i eni pod (← nats? ips)) with
    | some p' => okSlot st p' i
    | none => some (st, "reject")
  | "disp", [i, n] => do
    let i ← i.toNat?
    let n ← n.toNat?
    let (post, _) ← snap? obs
    let pre := p.slot i
    let out : DisposeOut :=
      if post.status == .deleting && pre.status != .deleting then .wholeENI
      else if pre.eni.isNone || pre.status != .inUse then .nothing
      else .marks (marksOf pre post false) (marksOf pre post true)
    match p.step (.dispose i n out) with
    | some p' => okSlot st p' i
    | none => some (st, "reject " ++ reprStr out)
  | "bal", ["start"] => some ({ st with bal := some { idles := 0, inuses := 0, toDel := 0 } }, "ok")
  | "usage", [i] => do
    let i ← i.toNat?
    let b ← st.bal
    let (id, iu) := (p.slot i).usage p.cfg
    some ({ st with bal := some { b with idles := b.idles + id, inuses := b.inuses + iu } }, s!"{id} {iu}")
  | "bdisp", [i] => do
    -- a `Dispose(n)` of the balancer: `n` is what its arithmetic says is left to dispose
    let i ← i.toNat?
    let b ← st.bal
    let (post, _) ← snap? obs
    let pre := p.slot i
    let toDel : Int := if b.toDel == 0 then (b.idles : Int) - st.maxIdles else b.toDel
    if toDel ≤ 0 then some (st, "reject no-surplus") else
    let n := toDel.toNat
    let out : DisposeOut :=
      if post.status == .deleting && pre.status != .deleting then .wholeENI
      else if pre.eni.isNone || pre.status != .inUse then .nothing
      else .marks (marksOf pre post false) (marksOf pre post true)
    match p.step (.dispose i n out) with
    | some p' =>
      let left := toDel - (pre.disposeRet n out : Int)
      -- `toDel == 0` is the "not yet computed" marker above: a finished balancer keeps a non-positive value
      okSlot { st with bal := some { b with toDel := if left == 0 then -1 else left } } p' i
    | none => some (st, "reject " ++ reprStr out)
  | "bal", ["end"] => do
    let b ← st.bal
    let (_, toAdd) := balance b.idles b.inuses st.maxIdles st.minIdles st.total
    some ({ st with bal := none }, s!"toAdd={toAdd}")
  | "sync", [i, remote] => do
    let i ← i.toNat?
    let r : Option (List Nat) ← if remote = "err" || remote = "skip" then some none else (nats? remote).map some
    match p.step (.sync i r) with
    | some p' => okSlot st p' i
    | none => some (st, "reject")
  | "env", ["remove", eni, ip] => do
    match p.step (.cloud eni [] [← ip.toNat?] false) with
    | some p' => some ({ st with pool := p' }, "#")
    | none => some (st, "reject")
  | "env", ["cloud", "add", eni, ips] => do
    match p.step (.cloud eni (← nats? ips) [] false) with
    | some p' => some ({ st with pool := p' }, "#")
    | none => some (st, "reject")
  | "env", ["cloud", "del", eni, ips] => do
    match p.step (.cloud eni [] (← nats? ips) false) with
    | some p' => some ({ st with pool := p' }, "#")
    | none => some (st, "reject")
  | "env", ["cloud", "gone", eni] =>
    match p.step (.cloud eni [] [] true) with
    | some p' => some ({ st with pool := p' }, "#")
    | none => some (st, "reject")
  | "env", _ => some (st, "#")
  | "ledger", [] => some (st, joinD (sortS (p.ledger.map fun x => s!"{x.1}:{x.2}")))
  | "acks", [] => some (st, joinD (sortS (p.acks.map fun x => s!"{x.1}:{x.2.1}:{x.2.2}")))
  | "slot", [i] => do some (st, snapStr p (← i.toNat?))
  | "ro", i :: _ => do some (st, snapStr p (← i.toNat?))   -- a read-only region: the state must be what it was
  | "case", [_] => some (st, "ok")
  | _, _ => none

end Terway.Drv.PoolD
