import TerwayModel.Driver.Common
import TerwayModel.Model.Bandwidth
namespace Terway.Drv.Bandwidth
open Terway.Bandwidth Terway.Drv

def outStr : Out → String
  | .ok n => s!"ok {n}"
  | .err => "err"
  | .panic => "panic"

def classStr : Out → String
  | .ok _ => "ok"
  | .err => "err"
  | .panic => "panic"

def step (op : String) (args : List String) : Option String :=
  match op, args with
  | "parse", [hex] => do
    let bs ← hexBytes? hex
    if bs.any (fun b => b.toNat ≥ 128) then pure "nonascii" else
    pure (outStr (parseBandwidth asciiCfg (bs.map fun b => Char.ofNat b.toNat)))
  | "class", [hex] => do
    let bs ← hexBytes? hex
    if bs.any (fun b => b.toNat ≥ 128) then pure "nonascii" else
    pure (classStr (parseBandwidth asciiCfg (bs.map fun b => Char.ofNat b.toNat)))
  | _, _ => none

end Terway.Drv.Bandwidth
