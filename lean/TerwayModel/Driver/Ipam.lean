import TerwayModel.Driver.Common
import TerwayModel.Model.Ipam
namespace Terway.Drv.IpamD
open Terway.Ipam Terway.Drv

def list? (s : String) (sep : String) : List String := if s = "-" then [] else s.splitOn sep
def joinD (sep : String) (l : List String) : String := if l.isEmpty then "-" else sep.intercalate l
def dash (s : String) : String := if s = "" then "-" else s
def undash (s : String) : String := if s = "-" then "" else s

def entry? (t : String) : Option Entry :=
  match t.splitOn ":" with
  | [ip, st, pod, uid, pr] => do
    pure { ip := ← ip.toNat?, status := ← (if st = "v" then some .valid else if st = "d" then some .deleting else none),
           pod := undash pod, uid := undash uid, primary := ← bool? pr }
  | _ => none

def entryStr (x : Entry) : String :=
  s!"{x.ip}:{if x.status == .valid then "v" else "d"}:{dash x.pod}:{dash x.uid}:{boolStr x.primary}"

def eni? (t : String) : Option Eni :=
  match t.splitOn "/" with
  | [id, st, ty, hp, ips] => do
    pure { id := id,
           status := ← (match st with | "InUse" => some .inUse | "Deleting" => some .deleting | "Other" => some .other | _ => none),
           typ := ← (match ty with | "s" => some .secondary | "t" => some .trunk | _ => none),
           hp := ← bool? hp, ips := ← (list? ips ",").mapM entry? }
  | _ => none

def eniStr (e : Eni) : String :=
  let st := match e.status with | .inUse => "InUse" | .deleting => "Deleting" | .other => "Other"
  s!"{e.id}/{st}/{if e.typ == .trunk then "t" else "s"}/{boolStr e.hp}/{joinD "," (e.ips.map entryStr)}"

def record? (s : String) : Option Record := (list? s ";").mapM eni?
def recordStr (r : Record) : String := joinD ";" (r.map eniStr)

def optNat? (s : String) : Option (Option Nat) := if s = "-" then some none else s.toNat?.map some

def pod? (t : String) : Option Pod :=
  match t.splitOn "/" with
  | [id, uid, n4, n6, er, i4, i6] => do
    pure { id := id, uid := undash uid, need4 := ← bool? n4, need6 := ← bool? n6, erdma := ← bool? er, ip4 := ← optNat? i4, ip6 := ← optNat? i6 }
  | _ => none
def pods? (s : String) : Option (List Pod) := (list? s ";").mapM pod?

def runtime? (s : String) : Option (Option Runtime) :=
  if s = "ERR" then some none else do
    let kv ← (list? s ",").mapM fun t => match t.splitOn "=" with
      | [u, "1"] => some (u, true)
      | [u, "0"] => some (u, false)
      | _ => none
    pure (some fun u => (kv.find? (·.1 == u)).map (·.2))

def cfg? (t : String) : Option NodeCfg :=
  match t.splitOn "/" with
  | [e4, e6, er, tr, c4, c6, b, mn, mx, ns, nt, nr] => do
    pure { en4 := ← bool? e4, en6 := ← bool? e6, erdma := ← bool? er, trunk := ← bool? tr, cap4 := ← c4.toNat?, cap6 := ← c6.toNat?,
           batch := ← b.toNat?, minPool := ← mn.toNat?, maxPool := ← mx.toNat?, nSecondary := ← ns.toNat?, nTrunk := ← nt.toNat?, nRdma := ← nr.toNat? }
  | _ => none

def optStr (o : Option_) : String :=
  let k := match o.kind with | .secondary => "s" | .trunk => "t" | .rdma => "r"
  s!"{(o.eni.map (·.id)).getD "new"}/{k}/{o.add4}/{o.add6}/{boolStr o.full}"

def insertS (x : String) : List String → List String
  | [] => [x]
  | y :: ys => if x < y then x :: y :: ys else y :: insertS x ys
def sortS (l : List String) : List String := l.foldr insertS []

/-- all orders of a small list -/
def insertAll (x : Eni) : List Eni → List (List Eni)
  | [] => [[x]]
  | y :: ys => (x :: y :: ys) :: (insertAll x ys).map (y :: ·)
def perms : List Eni → List (List Eni)
  | [] => [[]]
  | x :: xs => (perms xs).flatMap (insertAll x)

def step (op : String) (args : List String) : Option String :=
  match op, args with
  | "pods", en4 :: en6 :: er :: pods => do
    -- pod: name/host/useeni/exited/erdmaInit/erdmaMain
    let ps ← pods.mapM fun t =>
      match t.splitOn "/" with
      | [n, h, u, x, ei, em] => do
        pure ({ name := n, hostNetwork := ← bool? h, useENI := ← bool? u, exited := ← bool? x, erdmaInit := ← bool? ei, erdmaMain := ← bool? em } : RawPod)
      | _ => none
    let out := (getPods (← bool? en4) (← bool? en6) (← bool? er) ps).mergeSort fun a b => decide (a.1 ≤ b.1)
    pure (joinD "," (out.map fun r => s!"{r.1}:{boolStr r.2.1}:{boolStr r.2.2.1}:{boolStr r.2.2.2}"))
  | "merge", [remote, current] => do
    let r ← (list? remote ",").mapM entry?
    let c ← (list? current ",").mapM entry?
    -- a map has no order: sorted by address
    pure (joinD "," (((mergeEntries r c).mergeSort fun a b => decide (a.ip ≤ b.ip)).map entryStr))
  | "loop", [_] => some "ok"   -- a closed-loop case of the harness (monitors only), replayed by its seed
  | "rel", [pods, rt, rec] => do
    pure (recordStr (release (← pods? pods) (← runtime? rt) (← record? rec)))
  | "asg", [er, pods, pre, "|", post] => do
    let er ← bool? er
    let pods ← pods? pods
    let pre ← record? pre
    let post ← record? post
    if assignOK er pods pre post then
      pure ("ok " ++ joinD "," (sortS ((pods.filter fun p => !satisfied post p).map (·.id))))
    else pure "reject"
  | "plan", [cfg, normal, rdma, rec] => do
    let c ← cfg? cfg
    let r ← record? rec
    if !sortedOK c r then pure "reject unsorted" else
    pure (joinD ";" ((plan c r (← normal.toNat?) (← rdma.toNat?)).map optStr))
  | "trim", [cfg, pre, "|", post] => do
    let c ← cfg? cfg
    let pre ← record? pre
    let post ← record? post
    if pre.length != post.length then pure "reject" else
    let toDel := surplus c pre
    if toDel ≤ 0 then pure (if pre == post then "ok" else "reject changed") else
    -- some valid sort order explains the outcome
    let ok := (perms pre).any fun order =>
      sortedOK c order &&
      trimLoop (order.reverse.filterMap fun a => (post.find? (·.id == a.id)).map fun b => (a, b)) toDel
    pure (if ok then "ok" else "reject")
  | _, _ => none

end Terway.Drv.IpamD
