import TerwayModel.Driver.Common
import TerwayModel.Model.StoredRec
/-
`sr.filter <attached> <items>`: attached = "-" | id=mac,… (hex); items = "-" | t:eniid:id+… (t = i for an eniIp
item, o for any other type; eniid, id hex).  Output: the items handed on, same rendering, or "panic".
-/
namespace Terway.Drv.StoredRecD
open Terway.Stored Terway.Drv

def att? (s : String) : Option Attached :=
  if s = "-" then some [] else
  (s.splitOn ",").mapM fun e =>
    match e.splitOn "=" with
    | [a, b] => do pure ((← strHex? a), (← strHex? b))
    | _ => none

def item? (s : String) : Option Item :=
  match s.splitOn ":" with
  | [t, e, i] => do
    let ty ← if t = "i" then some true else if t = "o" then some false else none
    pure { eniIp := ty, eniID := (← strHex? e), id := (← strHex? i) }
  | _ => none

def itemStr (it : Item) : String :=
  (if it.eniIp then "i" else "o") ++ ":" ++ bytesToHex it.eniID.toUTF8.toList ++ ":" ++ bytesToHex it.id.toUTF8.toList

def step (op : String) (args : List String) : Option String :=
  match op, args with
  | "filter", [a, is] => do
    let att ← att? a
    let items ← if is = "-" then some [] else (is.splitOn "+").mapM item?
    pure (match filter att items with
      | none => "panic"
      | some [] => "-"
      | some out => "+".intercalate (out.map itemStr))
  | _, _ => none

end Terway.Drv.StoredRecD
