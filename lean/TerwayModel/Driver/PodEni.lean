import TerwayModel.Driver.Common
import TerwayModel.Model.PodEni
/-
Driver for the PodENI lifecycle model: one model state per pod name, one event per line
(`pe.<event> <name> args…`), answer `ok | <record> | <cloud>` (the model's view of the record and of
the name's interfaces after the event) or `reject | …` when the model does not accept the event.
-/
namespace Terway.Drv.PodEniD
open Terway.PE Terway.Drv

structure St where
  now : Nat := 0
  names : List (String × PE.St) := []

def get (st : St) (k : String) : PE.St := (st.names.lookup k).getD { now := st.now }
def put (st : St) (k : String) (s : PE.St) : St :=
  if (st.names.lookup k).isSome then { st with names := st.names.map fun (n, t) => if n == k then (n, s) else (n, t) }
  else { st with names := st.names ++ [(k, s)] }

def phase? : String → Option Phase
  | "I" => some .initial | "B" => some .bind | "Bg" => some .binding
  | "U" => some .unbind | "Dt" => some .detaching | "Dl" => some .deleting | _ => none
def phaseStr : Phase → String
  | .initial => "I" | .bind => "B" | .binding => "Bg" | .unbind => "U" | .detaching => "Dt" | .deleting => "Dl"

def res? : String → Option Res
  | "ok" => some .ok | "stale" => some .stale | "err" => some .err | _ => none

def strat? (s : String) : Option Strat :=
  if s = "E" then some .elastic else if s = "N" then some .never else if s = "X" then some .bad
  else if s.startsWith "T" then (s.drop 1).toString.toNat?.map .ttl else none

def optNat? (s : String) : Option (Option Nat) := if s = "-" then some none else s.toNat?.map some
def optStr (o : Option Nat) : String := match o with | some n => toString n | none => "-"

def nats? (s : String) : Option (List Nat) := if s = "-" then some [] else (s.splitOn "+").mapM (·.toNat?)

/-- `3:N+4:T35` -/
def allocs? (s : String) : Option (List (Nat × Strat)) :=
  if s = "-" then some [] else (s.splitOn "+").mapM fun t => match t.splitOn ":" with
    | [i, st] => do pure (← i.toNat?, ← strat? st)
    | _ => none

def stratStr : Strat → String
  | .elastic => "E" | .never => "N" | .bad => "X" | .ttl d => s!"T{d}"

def insertN (x : Nat) : List Nat → List Nat
  | [] => [x]
  | y :: ys => if x ≤ y then x :: y :: ys else y :: insertN x ys
def sortN (l : List Nat) : List Nat := l.foldr insertN []
def natsStr (l : List Nat) : String := if l.isEmpty then "-" else "+".intercalate ((sortN l).map toString)

def recStr : Option Rec → String
  | none => "absent"
  | some r =>
    let al := (sortN r.enis).filterMap fun i => (r.allocs.find? (·.eni == i)).map fun a => s!"{i}{stratStr a.strat}"
    s!"v{r.ver}:{phaseStr r.phase}:u{r.uid}:d{boolStr r.del}:{if al.isEmpty then "-" else "+".intercalate al}:i{optStr r.inst}:ls{optStr r.lastSeen}"

def cloudStr (c : List Eni) : String :=
  let ids := sortN (c.map (·.id))
  if ids.isEmpty then "-" else
  ",".intercalate (ids.filterMap fun i => (find c i).map fun e => s!"e{e.id}:{optStr e.att}")

def podRes? (s : String) : Option PodRes :=
  match s.splitOn ":" with
  | ["err"] => some .err | ["absent"] => some .absent | ["exited"] => some .exited | ["term"] => some .term
  | ["live", u, n] => do pure (.live (← u.toNat?) (← bool? n))
  | _ => none

def seen? (s : String) : Option (Option PodSeen) :=
  match s.splitOn ":" with
  | ["err"] => some none
  | ["absent"] => some (some .absent)
  | ["present", u, e, n] => do pure (some (.present (← u.toNat?) (← bool? e) (← bool? n)))
  | _ => none

def desc? (s : String) : Option DescRes :=
  match s.splitOn ":" with
  | ["err"] => some .err | ["absent"] => some .absent | ["free"] => some .free
  | ["att", i] => i.toNat?.map .att
  | _ => none

def ev? (now : Nat) (op : String) (a : List String) : Option Ev :=
  match op, a with
  | "podCreate", [n, f] => do pure (.podCreate (← bool? n) (← bool? f))
  | "podExit", [] => some .podExit
  | "podRemove", [] => some .podRemove
  | "foreign", [id, ours, member, att, age] => do
    let age ← age.toNat?
    pure (.foreign { id := ← id.toNat?, ip := 0, att := ← optNat? att, ctime := now - age, ours := ← bool? ours, member := ← bool? member })
  | "pStart", [] => some .pStart
  | "pGetPod", [r] => (podRes? r).map .pGetPod
  | "pGetRec", [f] => (bool? f).map .pGetRec
  | "pStatus", [v, ph, r] => do pure (.pStatus (← v.toNat?) (← phase? ph) (← res? r))
  | "pSetUid", [v, u, r] => do pure (.pSetUid (← v.toNat?) (← u.toNat?) (← res? r))
  | "pPatchLabel", [r] => (res? r).map .pPatchLabel
  | "pDeleteRec", [r] => (res? r).map .pDeleteRec
  | "pCloudCreate", [ok, id, ip] => do pure (.pCloudCreate (← bool? ok) (← id.toNat?) (← ip.toNat?))
  | "pCreateRec", [al, r] => do pure (.pCreateRec (← allocs? al) (← res? r))
  | "pCloudDelete", [id, ok] => do pure (.pCloudDelete (← id.toNat?) (← bool? ok))
  | "pDone", [] => some .pDone
  | "eStart", [] => some .eStart
  | "eGetRec", [f] => (bool? f).map .eGetRec
  | "eDeleteRec", [r] => (res? r).map .eDeleteRec
  | "eDescribe", [id, r] => do pure (.eDescribe (← id.toNat?) (← desc? r))
  | "eDetach", [id, ok] => do pure (.eDetach (← id.toNat?) (← bool? ok))
  | "eWait", [id, ok] => do pure (.eWait (← id.toNat?) (← bool? ok))
  | "eStatusUnbind", [v, r] => do pure (.eStatusUnbind (← v.toNat?) (← res? r))
  | "eCloudDelete", [id, ok] => do pure (.eCloudDelete (← id.toNat?) (← bool? ok))
  | "eFinalize", [v, r] => do pure (.eFinalize (← v.toNat?) (← res? r))
  | "eGetPod", [r] => (podRes? r).map .eGetPod
  | "eGetNode", [i] => (optNat? i).map .eGetNode
  | "eAttach", [id, i, ok] => do pure (.eAttach (← id.toNat?) (← i.toNat?) (← bool? ok))
  | "eStatusBind", [v, i, r] => do pure (.eStatusBind (← v.toNat?) (← i.toNat?) (← res? r))
  | "eDone", [] => some .eDone
  | "gList", [] => some .gList
  | "gGetPod", [r] => (seen? r).map .gGetPod
  | "gNodeErr", [] => some .gNodeErr
  | "gTouch", [r] => (res? r).map .gTouch
  | "gReap", [v, r] => do pure (.gReap (← v.toNat?) (← res? r))
  | "gEnd", [] => some .gEnd
  | "lDescribe", [u] => (bool? u).map .lDescribe
  | "lList", [] => some .lList
  | "lDelete", [id, ok] => do pure (.lDelete (← id.toNat?) (← bool? ok))
  | "lDetach", [id, ok] => do pure (.lDetach (← id.toNat?) (← bool? ok))
  | "lEnd", [] => some .lEnd
  | "dAccept", [u, ok] => do pure (.dAccept (← u.toNat?) (← bool? ok))
  | _, _ => none

def view (s : PE.St) : String := s!"{recStr s.rcd} | {cloudStr s.cloud}"

/-- extra answer of a reading event (what the call returned according to the model) -/
def extra (s : PE.St) : Ev → String
  | .lDescribe inuse => " | got=" ++ natsStr ((s.cloud.filter (listed inuse)).map (·.id))
  | _ => ""

def step (st : St) (op : String) (args : List String) : Option (St × String) :=
  match op, args with
  | "case", _ => some ({}, "ok")
  | "tick", [d] => do
    let d ← d.toNat?
    -- the clock is global: every name steps (a name whose pod controller is inside its creation window rejects)
    let stepped := st.names.map fun (n, s) => (n, PE.step s (.tick d))
    if stepped.all (·.2.isSome) then
      some ({ now := st.now + d, names := stepped.filterMap fun (n, o) => o.map fun s => (n, s) }, "ok")
    else some (st, "reject")
  | _, k :: rest => do
    let ev ← ev? st.now op rest
    let s := get st k
    match PE.step s ev with
    | some t => some (put st k t, "ok | " ++ view t ++ extra s ev)
    | none => some (st, "reject | " ++ view s)
  | _, _ => none

end Terway.Drv.PodEniD
