import TerwayModel.Driver.Common
import TerwayModel.Model.Token
namespace Terway.Drv.Token
open Terway.Token Terway.Drv

structure St where
  gen : Gen := Gen.new 500
  hashes : List HashInput := []   -- first-appearance numbering of distinct hash inputs

def optBool? (s : String) : Option (Option Bool) :=
  if s = "n" then some none else if s = "1" then some (some true) else if s = "0" then some (some false) else none

def strList? (s : String) : Option (List String) :=
  if s = "-" then some [] else (s.splitOn ",").mapM strHex?

def tags? (s : String) : Option (List (String × String)) :=
  if s = "-" then some [] else
  (s.splitOn ",").mapM fun kv =>
    match kv.splitOn "=" with
    | [k, v] => do pure ((← strHex? k), (← strHex? v))
    | _ => none

def number (st : St) (hi : HashInput) : St × Nat :=
  match st.hashes.idxOf? hi with
  | some i => (st, i)
  | none => ({ st with hashes := st.hashes ++ [hi] }, st.hashes.length)

def params? (a : List String) : Option CreateParams :=
  match a with
  | [vsw, trunk, erdma, sgs, rg, ipc, ip6c, dor, sdc] => do
    pure { vswitch := (← strHex? vsw), trunk := (← bool? trunk), erdma := (← bool? erdma),
           securityGroups := (← strList? sgs), resourceGroup := (← strHex? rg),
           ipCount := (← ipc.toNat?), ipv6Count := (← ip6c.toNat?),
           deleteOnRelease := (← optBool? dor), sourceDestCheck := (← optBool? sdc) }
  | _ => none

def hashOut (st : St) (r : Option HashInput) (extra : String) : St × String :=
  match r with
  | none => (st, "err")
  | some hi => let (st', n) := number st hi; (st', s!"h{n}{extra}")

def step (st : St) (op : String) (args : List String) : Option (St × String) :=
  match op, args with
  | "new", [cap] => do
    let cap ← cap.toNat?
    if cap = 0 then none else
    pure ({ st with gen := Gen.new cap }, "ok")
  | "gen", [h] => do
    let h ← h.toNat?
    let (g, t) := generate st.gen h
    pure ({ st with gen := g }, s!"t{t}")
  | "par", [h, n] => do
    -- n concurrent issue + roll-back pairs for one hash: each call is atomic, so the result is that of n issues followed
    -- by n roll-backs in some order; which order does not matter for the set of tokens available afterwards
    let h ← h.toNat?; let n ← n.toNat?
    if n < 2 ∨ n > 16 then none else
    let (g1, ts) := (List.range n).foldl (fun (acc : Gen × List Nat) _ => let (g, t) := generate acc.1 h; (g, acc.2 ++ [t])) (st.gen, [])
    let g2 := ts.foldl (fun g t => putBack g h t) g1
    pure ({ st with gen := g2 }, "ok")
  | "drain", [h, n] => do
    let h ← h.toNat?; let n ← n.toNat?
    if n < 1 ∨ n > 16 then none else
    let (g1, ts) := (List.range n).foldl (fun (acc : Gen × List Nat) _ => let (g, t) := generate acc.1 h; (g, acc.2 ++ [t])) (st.gen, [])
    let names := (ts.map fun t => s!"t{t}").mergeSort fun a b => decide (a ≤ b)
    pure ({ st with gen := g1 }, ",".intercalate names)
  | "put", [h, t] => do
    let h ← h.toNat?; let t ← t.toNat?
    pure ({ st with gen := putBack st.gen h t }, "ok")
  | "hreset", [] => pure ({ st with hashes := [] }, "ok")
  | "hcreate", [vsw, trunk, erdma, sgs, rg, ipc, ip6c, dor, sdc, tags] => do
    let p ← params? [vsw, trunk, erdma, sgs, rg, ipc, ip6c, dor, sdc]
    let tags ← tags? tags
    let order := ",".intercalate ((sortTags tags).map fun kv => (bytesToHex kv.1.toUTF8.toList))
    pure (hashOut st (finishCreate p tags) (" " ++ (if tags.isEmpty then "-" else order)))
  | "hassign4", [eni, n] => do
    pure (hashOut st (finishAssign4 (← strHex? eni) (← int? n)) "")
  | "hassign6", [eni, n] => do
    pure (hashOut st (finishAssign6 (← strHex? eni) (← int? n)) "")
  | "heflo", [vsw, trunk, erdma, sgs, rg, ipc, ip6c, dor, sdc, inst, zone] => do
    let p ← params? [vsw, trunk, erdma, sgs, rg, ipc, ip6c, dor, sdc]
    pure (hashOut st (finishEfloCreate p (← strHex? inst) (← strHex? zone)) "")
  -- whole request flow: build (hash), draw token, on failure roll back
  | "fcreate", [vsw, trunk, erdma, sgs, rg, ipc, ip6c, dor, sdc, tags, fail] => do
    let p ← params? [vsw, trunk, erdma, sgs, rg, ipc, ip6c, dor, sdc]
    let tags ← tags? tags
    let fail ← bool? fail
    pure (flow st (finishCreate p tags) fail)
  | "fassign4", [eni, n, fail] => do
    pure (flow st (finishAssign4 (← strHex? eni) (← int? n)) (← bool? fail))
  | "fassign6", [eni, n, fail] => do
    pure (flow st (finishAssign6 (← strHex? eni) (← int? n)) (← bool? fail))
  -- the same flows through the real OpenAPI wrappers (harness: scripted HTTP transport); fail: 0 ok, 1 server error, 2 business code, 3 throttled until the back-off is exhausted
  | "acreate", [vsw, trunk, erdma, sgs, rg, ipc, ip6c, dor, sdc, tags, fail] => do
    let p ← params? [vsw, trunk, erdma, sgs, rg, ipc, ip6c, dor, sdc]
    pure (flow st (finishCreate p (← tags? tags)) (← failTok? fail))
  | "bassign4", [eni, n, fail] => do   -- the v1 wrappers (AssignPrivateIPAddress / AssignIpv6Addresses)
    pure (flow st (finishAssign4 (← strHex? eni) (← int? n)) (← failTok? fail))
  | "bassign6", [eni, n, fail] => do
    pure (flow st (finishAssign6 (← strHex? eni) (← int? n)) (← failTok? fail))
  | "aassign4", [eni, n, fail] => do
    pure (flow st (finishAssign4 (← strHex? eni) (← int? n)) (← failTok? fail))
  | "aassign6", [eni, n, fail] => do
    pure (flow st (finishAssign6 (← strHex? eni) (← int? n)) (← failTok? fail))
  | "aeflo", [vsw, trunk, erdma, sgs, rg, ipc, ip6c, dor, sdc, inst, zone, fail] => do
    let p ← params? [vsw, trunk, erdma, sgs, rg, ipc, ip6c, dor, sdc]
    pure (flow st (finishEfloCreate p (← strHex? inst) (← strHex? zone)) (← failTok? fail))
  | _, _ => none
where
  failTok? (s : String) : Option Bool :=
    if s = "0" then some false else if s = "1" ∨ s = "2" ∨ s = "3" ∨ s = "4" then some true else none
  flow (st : St) (r : Option HashInput) (fail : Bool) : St × String :=
    match r with
    | none => (st, "err")
    | some hi =>
      let (st1, h) := number st hi
      let (g, t) := generate st1.gen h
      let g' := if fail then putBack g h t else g
      ({ st1 with gen := g' }, s!"t{t}")

end Terway.Drv.Token
