import TerwayModel.Driver.Common
import TerwayModel.Model.Daemon
namespace Terway.Drv.DaemonD
open Terway.Daemon Terway.Drv

abbrev St := Svc
def St.init : St := { db := [], pool := [], pending := [], crd := false, dual := false }

def list? (s : String) (sep : String) : List String := if s = "-" then [] else s.splitOn sep
def joinD (l : List String) : String := if l.isEmpty then "-" else ",".intercalate l

def nats? (s : String) : Option (List Nat) := (list? s "+").mapM (·.toNat?)
def natsStr (l : List Nat) : String := if l.isEmpty then "-" else "+".intercalate (l.map toString)

/-- `e1:101,e1:102` -/
def cloud? (s : String) : Option (List (String × Nat)) :=
  (list? s ",").mapM fun t => match t.splitOn ":" with
    | [e, ip] => do pure (e, ← ip.toNat?)
    | _ => none

/-- `e1:101:owner:valid,…` (owner `-` = none) -/
def pick? (s : String) : Option (List Ent) :=
  (list? s ",").mapM fun t => match t.splitOn ":" with
    | [e, ip, o, v] => do
      pure { eni := e, ip := ← ip.toNat?, owner := if o = "-" then none else some o, valid := ← bool? v }
    | _ => none

def view? : String → Option PodGet
  | "F0" => some (.found false)
  | "F1" => some (.found true)
  | "N" => some .notFound
  | "E" => some .error
  | _ => none

/-- insertion sort on strings (the canonical order of the dumps) -/
def insertS (x : String) : List String → List String
  | [] => [x]
  | y :: ys => if x < y then x :: y :: ys else y :: insertS x ys
def sortS (l : List String) : List String := l.foldr insertS []

def pad (n : Nat) : String :=
  let s := toString n
  String.ofList (List.replicate (9 - s.length) '0') ++ s

def stateStr (s : Svc) : String :=
  let db := sortS (s.db.map fun (p, r) =>
    s!"{p}:{if r.cid = "" then "-" else r.cid}:{if r.eni = "" then "-" else r.eni}:{natsStr r.ips}:{boolStr r.stick}")
  -- pool sorted by (eni, ip): sort on a padded key, print the plain form
  let keyed := s.pool.map fun e =>
    (s!"{e.eni}:{pad e.ip}", s!"{e.eni}:{e.ip}={e.owner.getD "-"}{if e.valid then "" else "!"}")
  let keys := sortS (keyed.map (·.1))
  let pool := keys.filterMap fun k => keyed.lookup k
  s!"db={joinD db} pool={joinD pool} pend={joinD s.pending}"

def replyStr : Reply → String
  | .processing => "processing"
  | .err => "err"
  | .ok ips => "ok " ++ natsStr ips

def fin (r : Svc × Reply) : Option (St × String) := some (r.1, replyStr r.2 ++ " | " ++ stateStr r.1)

def kind? (k : String) (pick : Option String) : Option Kind :=
  match k, pick with
  | "add", some p => do pure (.add (← pick? p))
  | "del", _ => some .del
  | "get", _ => some .get
  | _, _ => none

def exists? (s : String) : Option (List (String × Option Bool)) :=
  (list? s ",").mapM fun t => match t.splitOn "=" with
    | [p, "1"] => some (p, some true)
    | [p, "0"] => some (p, some false)
    | [p, "E"] => some (p, none)
    | _ => none

/-- the write stream of the SIGKILL runs: `P:k:v` / `D:k` -/
def wop? (t : String) : Option (Bool × String × String) :=
  match t.splitOn ":" with
  | ["P", k, v] => some (true, k, v)
  | ["D", k] => some (false, k, "")
  | _ => none

def step (s : St) (op : String) (args : List String) : Option (St × String) :=
  match op, args with
  | "init", [crd, dual, _, cloud] => do
    let s0 : Svc := { db := [], pool := [], pending := [], crd := ← bool? crd, dual := ← bool? dual }
    let s1 := boot s0.crd s0.dual (← cloud? cloud)
    pure (s1, stateStr s1)
  | "add", [p, cid, "-", "-"] => fin (request s (.add []) p cid .error)   -- rejected before GetPod
  | "add", [p, cid, v, pick] => do fin (request s (.add (← pick? pick)) p cid (← view? v))
  | "addc", [p, cid, "-", "-", _] => fin (request s (.addFail [] true) p cid .error)
  | "addc", [p, cid, v, pick, back] => do
    match ← view? v with
    | .found _ => fin (request s (.addFail (← pick? pick) (← bool? back)) p cid (.found false))
    | _ => fin (request s (.add []) p cid (← view? v))
  | "del", [p, cid, "-"] => fin (request s .del p cid .error)
  | "del", [p, cid, v] => do fin (request s .del p cid (← view? v))
  | "get", [p, cid, "-"] => fin (request s .get p cid .error)
  | "get", [p, cid, v] => do fin (request s .get p cid (← view? v))
  | "enter", [p, _, _] => fin (enter s p)
  | "leave", [p, k, cid, v] => do
    if p ∉ s.pending then none else
    fin (leave s (← kind? k none) p cid (← view? v))
  | "leave", [p, k, cid, v, pick] => do
    if p ∉ s.pending then none else
    fin (leave s (← kind? k (some pick)) p cid (← view? v))
  | "gc", [live, ex] => do
    match gcPass s { live := list? live ",", exists_ := ← exists? ex } with
    | none => pure (s, "blocked")
    | some s' => pure (s', "ok | " ++ stateStr s')
  | "restart", [cloud] => do
    let s' := restart s (← cloud? cloud)
    pure (s', stateStr s')
  | "crash", [p, k, cid, v, pick, wrote, cloud] => do
    let s' := crash s (← kind? k (some pick)) p cid (← view? v) (← bool? wrote) (← cloud? cloud)
    pure (s', stateStr s')
  | "env", _ => pure (s, "#")   -- API-server / cloud events of the harness: inputs of later lines, not model steps
  | "kill", [ops, acked, observed] => do
    let ops ← (list? ops ",").mapM wop?
    let n ← acked.toNat?
    let show_ := fun (m : List (String × String)) => joinD (sortS (m.map fun (k, v) => k ++ "=" ++ v))
    let after := fun (k : Nat) => show_ (Store.disk (ops.take k))
    pure (s, if observed = after n ∨ observed = after (n + 1) then "durable" else "lost")
  | _, _ => none

end Terway.Drv.DaemonD
