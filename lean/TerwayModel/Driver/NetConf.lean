import TerwayModel.Driver.Common
import TerwayModel.Model.NetConf
namespace Terway.Drv.NetConfD
open Terway.NetConf Terway.Drv

def optHex? (s : String) : Option (Option Nat) := if s = "-" then some none else (hexNat? s).map some

def cidr? (s : String) : Option Cidr :=
  if s = "-" then some .empty else if s = "bad" then some .bad else
  match s.splitOn "/" with
  | [a, n] => do pure (.ok (← hexNat? a) (← n.toNat?))
  | _ => none

def extra? (s : String) : Option (List (Bool × Nat × Nat)) :=
  if s = "-" then some [] else
  (s.splitOn "+").mapM fun r =>
    match r.splitOn ":" with
    | [fam, c] =>
      match c.splitOn "/" with
      | [a, n] => do pure (fam = "4", (← hexNat? a), (← n.toNat?))
      | _ => none
    | _ => none

def hexW (w : Nat) : Option Nat → String
  | none => "-"
  | some n => toHex (w / 4) n

def cidrStr (w : Nat) : Cidr → String
  | .empty => "-"
  | .bad => "bad"
  | .ok a n => s!"{toHex (w / 4) a}/{n}"

def extraStr (l : List (Bool × Nat × Nat)) : String :=
  if l.isEmpty then "-" else
  "+".intercalate (l.map fun (v4, a, n) => (if v4 then "4:" ++ toHex 8 a else "6:" ++ toHex 32 a) ++ s!"/{n}")

def nameHex (s : String) : String := bytesToHex s.toUTF8.toList

def confStr (c : NetConf) : String :=
  ";".intercalate [hexW 32 c.ip4, cidrStr 32 c.cidr4, hexW 32 c.gw4, hexW 128 c.ip6, cidrStr 128 c.cidr6, hexW 128 c.gw6,
    nameHex c.ifName, boolStr c.defaultRoute, extraStr c.extra, nameHex c.mac, boolStr c.trunk, toString c.vid]

def conf? (s : String) : Option NetConf :=
  match s.splitOn ";" with
  | [ip4, c4, g4, ip6, c6, g6, ifn, dr, ex, mac, tr, vid] => do
    pure { ip4 := (← optHex? ip4), cidr4 := (← cidr? c4), gw4 := (← optHex? g4), ip6 := (← optHex? ip6), cidr6 := (← cidr? c6),
           gw6 := (← optHex? g6), ifName := (← strHex? ifn), defaultRoute := (← bool? dr), extra := (← extra? ex),
           mac := (← strHex? mac), trunk := (← bool? tr), vid := (← vid.toNat?) }
  | _ => none

def alloc? (s : String) : Option Alloc :=
  match s.splitOn ";" with
  | [ip4, c4, ip6, c6, ifn, dr, ex, eni, mac] => do
    pure { ip4 := (← optHex? ip4), cidr4 := (← cidr? c4), ip6 := (← optHex? ip6), cidr6 := (← cidr? c6),
           ifName := (← strHex? ifn), defaultRoute := (← bool? dr), extra := (← extra? ex), eniID := eni, mac := (← strHex? mac) }
  | _ => none

def ipType? : String → Option IPType
  | "v" => some .vpcIP | "e" => some .vpcENI | "m" => some .eniMultiIP | _ => none

def dpStr : DataPath → String
  | .vpcRoute => "vpcRoute" | .exclusiveENI => "exclusiveENI" | .vlan => "vlan" | .ipvlan => "ipvlan"

/-- `vlan_strip_type`: 0 = "filter", 1 = "vlan", 2 = key absent, 3 = any other string; only "vlan" selects the VLAN datapath -/
def strip? : String → Option Bool
  | "1" => some true
  | "0" | "2" | "3" => some false
  | _ => none

def step (op : String) (args : List String) : Option String :=
  match op, args with
  | "default", entries => do
    let es ← entries.mapM fun e =>
      match e.splitOn ":" with
      | [n, d] => do pure ({ ifName := (← strHex? n), defaultRoute := (← bool? d) } : Entry)
      | _ => none
    pure (match defaultForNetConf es with
      | .ok l => "ok " ++ String.join (l.map fun e => boolStr e.defaultRoute)
      | .error .dupDefault => "err:dup"
      | .error .noDefaultIf => "err:noif")
  | "remote", tm :: vids :: allocs => do
    let trunk : Option String ← if tm = "-" then some none else (strHex? tm).map some
    let vs : List (String × Nat) ← if vids = "-" then some [] else
      (vids.splitOn ",").mapM fun kv => match kv.splitOn "=" with
        | [k, v] => do pure (k, (← v.toNat?))
        | _ => none
    let as ← allocs.mapM alloc?
    pure (match remoteToRPC trunk vs as with
      | none => "nil"
      | some cs => if cs.isEmpty then "empty" else " ".intercalate (cs.map confStr))
  | "crd", pod :: enis => do
    -- eni: id/inUse/ip:valid:pod,…  (ip decimal)
    let es ← enis.mapM fun t =>
      match t.splitOn "/" with
      | [id, u, ips] => do
        let l ← (if ips = "-" then some [] else (ips.splitOn ",").mapM fun x =>
          match x.splitOn ":" with
          | [ip, v, p] => do pure ((← ip.toNat?), (← bool? v), (if p = "-" then "" else p))
          | _ => none)
        pure ({ id := id, inUse := (← bool? u), ips := l } : CrdEni)
      | _ => none
    pure ((crdOwner es pod).getD "none")
  | "meta", [v6, k] => do
    -- what the instance metadata says about the interface is what the local result reports: gateway and subnet per enabled family
    let v6 ← bool? v6
    let k ← k.toNat?
    if k > 250 then none else
    let m := metaNetConf v6 k
    pure s!"{m.gw4} {m.gw6.getD "-"} {m.cidr4} {m.cidr6.getD "-"}"
  | "dp", [t, strip, trunk] => do
    pure (dpStr (getDataPath (← ipType? t) (← strip? strip) (← bool? trunk)))
  | "parse", [t, strip, argIf, pi, pe, ri, re, conf] => do
    let c ← conf? conf
    match parseSetup (← ipType? t) (← strip? strip) (← strHex? argIf) (← pi.toNat?) (← pe.toNat?) (← ri.toNat?) (← re.toNat?) c with
    | .error _ => pure "err"
    | .ok s =>
      let a (w : Nat) : Option (Nat × Nat) → String
        | none => "-"
        | some (ip, n) => s!"{toHex (w / 4) ip}/{n}"
      let routes := if s.routes.isEmpty then "-" else
        "+".intercalate (s.routes.map fun (v4, d, n, gw) =>
          (if v4 then "4:" ++ toHex 8 d else "6:" ++ toHex 32 d) ++ s!"/{n}>" ++ (if v4 then hexW 32 gw else hexW 128 gw))
      pure s!"a4={a 32 s.addr4} a6={a 128 s.addr6} gw4={hexW 32 s.gw4} gw6={hexW 128 s.gw6} routes={routes} in={s.ingress} eg={s.egress} dr={boolStr s.defaultRoute} if={nameHex s.ifName} trunk={boolStr s.trunk} vid={s.vid} dp={dpStr s.dp}"
  | _, _ => none

end Terway.Drv.NetConfD
