/-
Line-protocol helpers shared by all model drivers (core Lean only).
-/
namespace Terway.Drv

def hexDigit? (c : Char) : Option Nat :=
  if '0' ≤ c ∧ c ≤ '9' then some (c.toNat - 48)
  else if 'a' ≤ c ∧ c ≤ 'f' then some (c.toNat - 87)
  else if 'A' ≤ c ∧ c ≤ 'F' then some (c.toNat - 55)
  else none

/-- decode a hex string ("-" = empty) into bytes -/
def hexBytes? (s : String) : Option (List UInt8) :=
  if s = "-" then some [] else
  let rec go : List Char → Option (List UInt8)
    | [] => some []
    | [_] => none
    | a :: b :: rest => do
      let x ← hexDigit? a
      let y ← hexDigit? b
      let r ← go rest
      pure (UInt8.ofNat (16 * x + y) :: r)
  go s.toList

def hexNat? (s : String) : Option Nat :=
  if s.isEmpty then none else
  s.toList.foldlM (fun acc c => do let d ← hexDigit? c; pure (16 * acc + d)) 0

def nibbleChar (v : Nat) : Char :=
  if v < 10 then Char.ofNat (48 + v) else Char.ofNat (87 + v)

/-- fixed-width lower-case hex -/
def toHex (width : Nat) (n : Nat) : String :=
  String.ofList ((List.range width).reverse.map fun i => nibbleChar ((n >>> (4 * i)) % 16))

def bytesToHex (bs : List UInt8) : String :=
  if bs.isEmpty then "-" else String.join (bs.map fun b => toHex 2 b.toNat)

def strHex? (s : String) : Option String := do
  let bs ← hexBytes? s
  String.fromUTF8? (ByteArray.mk bs.toArray)

def words (line : String) : List String :=
  (line.splitOn " ").filter (· ≠ "")

def boolStr (b : Bool) : String := if b then "1" else "0"
def bool? (s : String) : Option Bool :=
  if s = "1" then some true else if s = "0" then some false else none

/-- parse possibly negative decimal -/
def int? (s : String) : Option Int := s.toInt?

end Terway.Drv
