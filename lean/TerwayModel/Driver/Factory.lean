import TerwayModel.Driver.Common
import TerwayModel.Model.Factory
/-
`fa.assign <fam> <n> <apiFail> <metaShows>`: see Model/Factory.lean (the address family does not matter to the contract).
-/
namespace Terway.Drv.FactoryD
open Terway.Factory Terway.Drv

def step (op : String) (args : List String) : Option String :=
  match op, args with
  | "assign", [fam, n, f, m] => do
    if fam ≠ "4" ∧ fam ≠ "6" then none else
    let n ← n.toNat?
    if n = 0 ∨ n > 8 then none else
    let o := assign n (← bool? f) (← bool? m)
    pure s!"ret={o.returned} err={boolStr o.err} cloud+={o.added}"
  | "exhaust", [n] => do
    let n ← n.toNat?
    if n = 0 ∨ n > 3 then none else
    let (t1, t2) := exhaustTwice n
    let render (l : List Nat) : String := if l.isEmpty then "-" else ",".intercalate (l.map toString)
    pure s!"{render t1} {render t2}"
  | "attached", [tr, er, tg, pref, tys] => do
    let tys ← (tys.splitOn ",").mapM fun t => match t with
      | "S" => some Ty.secondary | "T" => some Ty.trunk | "R" => some Ty.rdma | _ => none
    if tys.isEmpty ∨ tys.length > 6 then none else
    let pref : Option Nat ← (if pref = "-" then some none else (pref.toNat?).map some)
    match pref with
    | some i => if i ≥ tys.length then none else pure ()
    | none => pure ()
    let flags := attached (← bool? tr) (← bool? er) (← bool? tg) pref tys
    let items := (List.range flags.length).zip flags |>.map fun (i, (t, r)) => s!"{i}:{boolStr t}{boolStr r}"
    pure (if items.isEmpty then "-" else ",".intercalate items)
  | _, _ => none

end Terway.Drv.FactoryD
