import TerwayModel.Driver.Common
import TerwayModel.Model.Factory
/-
`fa.assign <fam> <n> <apiFail> <metaShows>`: see Model/Factory.lean (the address family does not matter to the contract).
-/
namespace Terway.Drv.FactoryD
open Terway.Factory Terway.Drv

def step (op : String) (args : List String) : Option String :=
  match op, args with
  | "assign", [fam, n, f, m] => do
    if fam ≠ "4" ∧ fam ≠ "6" then none else
    let n ← n.toNat?
    if n = 0 ∨ n > 8 then none else
    let o := assign n (← bool? f) (← bool? m)
    pure s!"ret={o.returned} err={boolStr o.err} cloud+={o.added}"
  | _, _ => none

end Terway.Drv.FactoryD
