import TerwayModel.Driver.Common
import TerwayModel.Model.Agent
/-
`rt.*`: the node agent's NodeRuntime reporting (Model/Agent.lean), one world per case.
  rt.new
  rt.del <uid> <okID>
  rt.sync <ok>
  rt.back <uid:okID,…|-> <ok>
  rt.clean <local uid,…|-> <uid=p|a|f,…|-> <ok>
  rt.age
Output: `rt=<uid:okID:recent:deleted,…|-> pend=<uid,…|->`, both sorted by uid.
-/
namespace Terway.Drv.AgentD
open Terway.Agent Terway.Drv

def view (s : St) : String :=
  let es := s.rt.mergeSort fun a b => decide (a.uid ≤ b.uid)
  let ps := (s.pending.map (·.1)).mergeSort fun a b => decide (a ≤ b)
  "rt=" ++ (if es.isEmpty then "-" else ",".intercalate (es.map fun e => s!"{e.uid}:{boolStr e.okID}:{boolStr e.recent}:{boolStr e.deleted}")) ++
  " pend=" ++ (if ps.isEmpty then "-" else ",".intercalate (ps.map toString))

def nats? (s : String) : Option (List Nat) := if s = "-" then some [] else (s.splitOn ",").mapM String.toNat?

def pairs? (s : String) : Option (List (Nat × Bool)) :=
  if s = "-" then some [] else (s.splitOn ",").mapM fun t =>
    match t.splitOn ":" with
    | [u, b] => do pure ((← u.toNat?), (← bool? b))
    | _ => none

def verdicts? (s : String) : Option (List (Nat × Verdict)) :=
  if s = "-" then some [] else (s.splitOn ",").mapM fun t =>
    match t.splitOn "=" with
    | [u, "p"] => do pure ((← u.toNat?), Verdict.present)
    | [u, "a"] => do pure ((← u.toNat?), Verdict.absent)
    | [u, "f"] => do pure ((← u.toNat?), Verdict.failed)
    | _ => none

def step (s : St) (op : String) (args : List String) : Option (St × String) :=
  let fin (t : St) : Option (St × String) := some (t, view t)
  match op, args with
  | "new", [] => fin {}
  | "del", [u, b] => do fin (Agent.step s (.del (← u.toNat?) (← bool? b)))
  | "sync", [ok] => do fin (Agent.step s (.sync (← bool? ok)))
  | "back", [us, ok] => do fin (Agent.step s (.back (← pairs? us) (← bool? ok)))
  | "clean", [ls, vs, ok] => do
    let v ← verdicts? vs
    -- an entry the harness gave no answer for is never asked about: absent by default would hide a missing answer
    fin (Agent.step s (.clean (← nats? ls) (fun u => ((v.find? (·.1 == u)).map (·.2)).getD .failed) (← bool? ok)))
  | "age", [] => fin (Agent.step s .age)
  | _, _ => none

end Terway.Drv.AgentD
