import TerwayModel.Driver.Common
import TerwayModel.Model.Capacity
namespace Terway.Drv.Capacity
open Terway.Capacity Terway.Drv

def ints? (l : List String) : Option (List Int) := l.mapM int?

def limits? : List String → Option Limits
  | [a, t, v4, v6, m, mm, e] => do
    pure { adapters := (← int? a), totalAdapters := (← int? t), ipv4Per := (← int? v4), ipv6Per := (← int? v6),
           member := (← int? m), maxMember := (← int? mm), erdmaAdapters := (← int? e) }
  | _ => none

def mode? : String → Option Mode
  | "m" => some .multiIP
  | "e" => some .eniOnly
  | _ => none

def stack? : String → Option Stack
  | "ipv4" => some .ipv4
  | "dual" => some .dual
  | "ipv6" => some .ipv6
  | "other" => some .other
  | _ => none

def swStr (s : Switches) : String := s!"{boolStr s.ipv4}{boolStr s.ipv6}{boolStr s.trunk}{boolStr s.erdma}"

def kindStr : FlavorKind → String
  | .trunk => "trunk" | .erdma => "erdma" | .standard => "std"

def flavorStr (fl : List Flavor) : String := ",".intercalate (fl.map fun f => s!"{kindStr f.kind}:{f.count}")

def step (op : String) (args : List String) : Option String :=
  match op, args with
  | "limits", [q, p, v6, t, e, tr] => do
    let l := getInstanceType { eniQuantity := (← int? q), eniPrivateIp := (← int? p), eniIpv6 := (← int? v6),
                               eniTotal := (← int? t), eriQuantity := (← int? e), trunkSupported := (← bool? tr) }
    pure s!"{l.adapters} {l.totalAdapters} {l.ipv4Per} {l.ipv6Per} {l.member} {l.maxMember} {l.erdmaAdapters} | {l.erdmaRes} {l.multiIPPod} {l.exclusiveENIPod}"
  | "pool", a :: t :: v4 :: v6 :: m :: mm :: e :: mode :: maxENI :: minENI :: maxPool :: minPool :: shift :: trunk :: erdma :: crd :: [] => do
    let l ← limits? [a, t, v4, v6, m, mm, e]
    let cfg : Cfg := { maxENI := (← int? maxENI), minENI := (← int? minENI), maxPool := (← int? maxPool), minPool := (← int? minPool),
                       eniCapShift := (← int? shift), enableTrunk := (← bool? trunk), enableERDMA := (← bool? erdma),
                       ipamCRD := (← bool? crd), ipStack := .ipv4 }
    let p := poolConfig cfg (← mode? mode) l
    pure s!"{p.maxPool} {p.minPool} {p.capacity} {p.maxENI} {p.maxMember} {p.maxIPPerENI} {p.erdmaCap}"
  | "check", a :: t :: v4 :: v6 :: m :: mm :: e :: mode :: stack :: trunk :: erdma :: os :: [] => do
    let l ← limits? [a, t, v4, v6, m, mm, e]
    let cfg : Cfg := { maxENI := 0, minENI := 0, maxPool := 0, minPool := 0, eniCapShift := 0,
                       enableTrunk := (← bool? trunk), enableERDMA := (← bool? erdma), ipamCRD := false, ipStack := (← stack? stack) }
    pure (swStr (checkInstance l (← mode? mode) cfg (← bool? os)))
  | "crd", [a, v4, v6, m, eri, stack, trunk, erdma, os, excl] => do
    let cap : NodeCap := { adapters := (← int? a), ipv4Per := (← int? v4), ipv6Per := (← int? v6), member := (← int? m), eriQuantity := (← int? eri) }
    let cfg : Cfg := { maxENI := 0, minENI := 0, maxPool := 0, minPool := 0, eniCapShift := 0,
                       enableTrunk := (← bool? trunk), enableERDMA := (← bool? erdma), ipamCRD := true, ipStack := (← stack? stack) }
    match crdSwitches cap cfg (← bool? os) (← bool? excl) with
    | none => pure "err"
    | some s => pure s!"{swStr s} {flavorStr (flavor cap s)}"
  | "adv", [a, v4, m, excl, trunkSw, ready, ft, fe, std] => do
    -- controller side: annotations / extended resources published for a Node CR with this flavor
    let fl := flavorOf (← bool? ft) (← bool? fe) (← int? std)
    let _ ← int? a
    let excl ← bool? excl
    let ips := annoIPs excl fl (← int? v4)
    let sw : Switches := { ipv4 := true, ipv6 := false, trunk := (← bool? trunkSw), erdma := false }
    let res := nodeRes excl fl sw (← bool? ready) (← int? m)
    let annoS := if ips > 0 then toString ips else "-"
    -- a zero quantity equals the (absent) previous value, so nothing is patched
    let resS := match res with | some (n, q) => if q = 0 then "-" else s!"{n}:{q}" | none => "-"
    pure s!"anno={annoS} res={resS}"
  | "node", steps => do
    -- each step: type,id,zone,region,lookupFails; output per step: ok|err and the stored CR
    let ss ← steps.mapM fun st =>
      match st.splitOn "," with
      | [t, i, z, r, f] => do pure (({ type := (← t.toNat?), id := (← i.toNat?), zone := (← z.toNat?), region := (← r.toNat?) } : NodeMeta), (← bool? f))
      | _ => none
    let crStr : Option NodeCR → String
      | none => "-"
      | some c => s!"{c.md.type},{c.md.id},{c.md.zone},{c.md.region}:" ++ (match c.capOf with | some t => toString t | none => "-")
    let (_, outs) := ss.foldl (fun (acc : Option NodeCR × List String) st =>
      let (cr', ok) := nodeReconcile acc.1 st.1 st.2
      (cr', acc.2 ++ [(if ok then "ok " else "err ") ++ crStr cr'])) (none, [])
    pure (" | ".intercalate outs)
  | _, _ => none

end Terway.Drv.Capacity
