import TerwayModel.Model.Remote

namespace Terway.Drv.RemoteD
open Terway.Remote

def rec? : String → Option Rec
  | "absent" => some .absent | "deleting" => some .deleting | "notbind" => some .notBind | "otheruid" => some .otherUid
  | "othertrunk" => some .otherTrunk | "noalloc" => some .noAlloc | "good" => some .good | _ => none

/-- `rm.alloc <steps> <rec> <trunk>` -/
def step (op : String) (args : List String) : Option String :=
  match op, args with
  | "alloc", [steps, r, trunk] => do
    let n ← steps.toNat?
    if n > 6 then none else
    let r ← rec? r
    let t ← (match trunk with | "1" => some true | "0" => some false | _ => none)
    pure (match poll t r n with
      | .ok => "ok"
      | .notReady => "err:PodENINotReady"
      | .timeout => "err:timeout")
  | _, _ => none

end Terway.Drv.RemoteD
