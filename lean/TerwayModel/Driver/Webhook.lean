import TerwayModel.Driver.Common
import TerwayModel.Model.Webhook
namespace Terway.Drv.WebhookD
open Terway.Webhook Terway.Drv

def lst (s : String) : List String := if s = "-" then [] else s.splitOn ","
def lstStr (l : List String) : String := if l.isEmpty then "-" else ",".intercalate l

def optB? : String → Option (Option Bool)
  | "n" => some none | "t" => some (some true) | "f" => some (some false) | _ => none

def net? (s : String) : Option Net :=
  match s.splitOn ":" with
  | [ifn, vsw, sgs, fx, att] => do
    let fixed : Option Bool ← match fx with | "n" => some none | "f" => some (some true) | "e" => some (some false) | _ => none
    pure { iface := (← strHex? ifn), vsw := lst vsw, sgs := lst sgs, fixed := fixed, attachENI := (← bool? att) }
  | _ => none

def pn? (s : String) : Option PN :=
  match s.splitOn ":" with
  | [name, ready, fixed, ps, nsl, vsw, sgs, att, zones] => do
    pure { name := name, ready := (← bool? ready), fixed := (← bool? fixed), podSel := (← optB? ps), nsSel := (← optB? nsl),
           vsw := lst vsw, sgs := lst sgs, attachENI := (← bool? att), zones := lst zones }
  | _ => none

def req? (s : String) : Option Req :=
  match s.splitOn ":" with
  | [n, ifn] => do pure { network := n, iface := (← strHex? ifn) }
  | _ => none

def sortDedup (l : List String) : List String := (l.mergeSort fun a b => decide (a ≤ b)).eraseDups

def netStr (n : Net) : String :=
  s!"{bytesToHex n.iface.toUTF8.toList}:{lstStr n.vsw}:{lstStr n.sgs}:" ++
  (match n.fixed with | none => "n" | some true => "f" | some false => "e") ++ ":" ++ boolStr n.attachENI

def step (op : String) (args : List String) : Option String :=
  match op, args with
  | "adm", [pod, anno, reqs, pns, nsE, prev, crd, inj, trunk, cluster] => do
    let p ← match pod.splitOn "," with
      | [hn, c, ig, a, b, d, fx, ds, ue] => do
        pure ({ hostNetwork := (← bool? hn), containers := (← ((c.splitOn "r").head?.bind String.toNat?)), ignored := (← bool? ig), hasNetworks := (← bool? a),
                hasRequest := (← bool? b), hasPN := (← bool? d), fixedName := (← bool? fx), daemonSet := (← bool? ds), useENI := (← bool? ue) } : Pod)
      | _ => none
    let pre : Option Nat ← match ((pod.splitOn ",").getD 1 "").splitOn "r" with
      | [_] => some none
      | [_, q] => (q.toNat?).map some
      | _ => none
    let annoNets : Option (List Net) ← if anno = "-" then some (some []) else if anno = "bad" then some none else ((anno.splitOn "+").mapM net?).map some
    let rs : Option (List Req) ← if reqs = "-" then some (some []) else if reqs = "bad" then some none else ((reqs.splitOn "+").mapM req?).map some
    let pl ← if pns = "-" then some [] else (pns.splitOn "+").mapM pn?
    let cl : Option (List String × List String) ← if cluster = "-" then some none else
      -- vSwitches : security_groups [: legacy security_group]; the effective groups are the sorted, duplicate-free union
      -- (GetSecurityGroups); more than ten make ConfigFromConfigMap fail: the configuration cannot be read
      match cluster.splitOn ":" with
      | [v, s] => some (if (sortDedup (lst s)).length > 10 then none else some (lst v, sortDedup (lst s)))
      | [v, s, legacy] =>
        let eff := sortDedup (legacy :: lst s)
        some (if eff.length > 10 then none else some (lst v, eff))
      | _ => none
    let inp : Input := { pod := p, annoNets := annoNets, reqs := rs, pns := pl, nsExists := (← bool? nsE),
                         prevZone := if prev = "-" then none else some prev, ipamCRD := (← bool? crd), inject := (← bool? inj),
                         enableTrunk := (← bool? trunk), cluster := cl, pre := pre }
    pure (match admitPod inp with
      | .allowed => "allowed"
      | .denied w => "denied:" ++ w
      | .errored => "errored"
      | .patched nets pa res zt =>
        -- a result that equals what the pod already carries is an empty patch: the response is a plain "allowed"
        let same := match res, pre with | none, _ => true | some (_, k), some q => k == q | some _, none => false
        if inp.annoNets == some nets && p.useENI && pa.isNone && same && zt.isEmpty then "allowed" else
        "patched nets=" ++ "+".intercalate (nets.map netStr) ++ " pn=" ++ pa.getD "-" ++
        " res=" ++ (match (finalResources pre res).mergeSort (fun a b => decide (a.1 ≤ b.1)) with
                    | [] => "-" | l => ",".intercalate (l.map fun e => s!"{e.1}:{e.2}")) ++
        " zones=" ++ (if zt.isEmpty then "-" else "|".intercalate (zt.map fun z => lstStr (sortDedup z))))
  | _, _ => none

end Terway.Drv.WebhookD
