import TerwayModel.Driver.Common
import TerwayModel.Model.Json
import TerwayModel.Model.CniChain
/-
Token form of JSON documents on the line protocol (no JSON text parser needed on the Lean side):
  n | t | f | i:<int> | s:<hex> | [ v* ] | { (k:<hex> v)* }
Objects are printed with keys sorted, so both sides produce the same canonical line.
-/
namespace Terway.Drv.JsonD
open Terway.Json Terway.Drv

mutual
partial def parseVal : List String → Option (Json × List String)
  | "n" :: r => some (.null, r)
  | "t" :: r => some (.bool true, r)
  | "f" :: r => some (.bool false, r)
  | "[" :: r => parseArr r []
  | "{" :: r => parseObj r []
  | tok :: r =>
    if tok.startsWith "i:" then (tok.drop 2).toString.toInt?.map fun n => (.num n, r)
    else if tok.startsWith "s:" then (strHex? (tok.drop 2).toString).map fun s => (.str s, r)
    else none
  | [] => none
partial def parseArr : List String → List Json → Option (Json × List String)
  | "]" :: r, acc => some (.arr acc.reverse, r)
  | toks, acc => do
    let (v, r) ← parseVal toks
    parseArr r (v :: acc)
partial def parseObj : List String → Kvs → Option (Json × List String)
  | "}" :: r, acc => some (.obj acc.reverse, r)
  | tok :: r, acc =>
    if tok.startsWith "k:" then do
      let k ← strHex? (tok.drop 2).toString
      let (v, r') ← parseVal r
      -- Go decodes objects into maps: a repeated key keeps its last value
      parseObj r' ((k, v) :: acc.filter (·.1 ≠ k))
    else none
  | [], _ => none
end

partial def render : Json → String
  | .null => "n"
  | .bool true => "t"
  | .bool false => "f"
  | .num n => s!"i:{n}"
  | .str s => "s:" ++ bytesToHex s.toUTF8.toList
  | .arr xs => "[ " ++ String.join (xs.map fun x => render x ++ " ") ++ "]"
  | .obj kvs =>
    let sorted := kvs.mergeSort fun a b => decide (a.1 ≤ b.1)
    "{ " ++ String.join (sorted.map fun (k, v) => "k:" ++ bytesToHex k.toUTF8.toList ++ " " ++ render v ++ " ") ++ "}"

def splitBar (toks : List String) : List String × List String :=
  (toks.takeWhile (· ≠ "|"), (toks.dropWhile (· ≠ "|")).drop 1)

def step (op : String) (args : List String) : Option String :=
  match op with
  | "merge" => do
    let (b, t) := splitBar args
    let (base, rb) ← parseVal b
    let (top, rt) ← parseVal t
    if !rb.isEmpty || !rt.isEmpty then none else
    pure (match mergePatch base top with
      | some j => render j
      | none => "err")
  | _ => none

open Terway.CniChain in
def chainStep (op : String) (args : List String) : Option String :=
  match op, args with
  | "chain", ebpf :: edt :: pol :: sw :: prev :: link :: toks => do
    let prevC : Option Bool ← match prev with
      | "t" => some (some true) | "f" => some (some false) | "-" => some none | _ => none
    let env : Env := { ebpf := (← bool? ebpf), edt := (← bool? edt), policy := (← bool? pol), switchV2 := (← bool? sw),
                       prevCilium := prevC, ciliumLink := (← bool? link) }
    let (v, r) ← parseVal toks
    if !r.isEmpty then none else
    match v with
    | .arr ps =>
      pure (match mergeConfigList env ps with
        | .ok out => render (.arr out)
        | .error .typeNotFound => "err:type"
        | .error .nppType => "err:npp"
        | .error .invalidDatapath => "err:datapath")
    | _ => none
  | _, _ => none

/-- `cni.gen <old> <list> …`: `terway-cli cni` run on a node where an earlier run may have left a file at `--output`
(`old`: none, a shorter one, a longer one).  What a reader of the file gets is `CniChain.generate`, which does not look at
what was there; with `list = 0` the input is a single plugin configuration (`10-terway.conf`). -/
def genStep (args : List String) : Option String :=
  match args with
  | old :: list :: rest =>
    if !(old == "none" || old == "short" || old == "long") then none else
    if !(list == "0" || list == "1") then none else
    match rest with
    | _ :: _ :: _ :: _ :: _ :: _ :: toks =>
      match parseVal toks with
      | some (.arr ps, []) => if list == "0" && ps.length != 1 then none else chainStep "chain" rest
      | _ => none
    | _ => none
  | _ => none

end Terway.Drv.JsonD
