import TerwayModel.Driver.Common
import TerwayModel.Model.VSwitch
namespace Terway.Drv.VSwitch
open Terway.VSwitch Terway.Drv

abbrev St := Pool

def St.init : St := { ttl := 600, now := 0, cache := [], cloud := [] }

def ids? (s : String) : Option (List String) := if s = "-" then some [] else some (s.splitOn ",")
def idsStr (l : List String) : String := if l.isEmpty then "-" else ",".intercalate l

def policy? : String → Option Policy
  | "ordered" => some .ordered
  | "most" => some .most
  | "random" => some .random
  | "default" => some .ordered   -- the empty policy string falls through the switch: caller order
  | _ => none

def swStr (s : Sw) : String := s!"{s.id} {s.zone} {s.free}"

def isElig (zone : String) (s : Sw) : Bool := s.zone == zone && s.free != 0

def step (p : St) (op : String) (args : List String) : Option (St × String) :=
  match op, args with
  | "new", [ttl] => do pure ({ St.init with ttl := (← ttl.toNat?) }, "ok")
  | "cloud", [id, zone, free] => do
    let f ← int? free
    pure ({ p with cloud := (id, ⟨id, zone, f⟩) :: remove p.cloud id }, "ok")
  | "cloudrm", [id] => pure ({ p with cloud := remove p.cloud id }, "ok")
  | "add", [id, zone, free] => do
    let f ← int? free
    pure (store p ⟨id, zone, f⟩, "ok")
  | "tick", [dt] => do pure (tick p (← dt.toNat?), "ok")
  | "get", [id] =>
    let (p', r) := getByID p id
    pure (p', match r with | some s => swStr s | none => "err")
  | "getpar", [id, _] =>   -- concurrent look-ups of one id: one shared describe call, cached like a single look-up
    let (p', r) := getByID p id
    pure (p', match r with | some s => swStr s | none => "err")
  | "block", [id] => pure (block p id, "ok")
  | "one", [pol, zone, ign, ids] => do
    let pol ← policy? pol
    if pol == .random then none else
    let ign ← bool? ign
    let ids ← ids? ids
    let r := getOne p pol zone ign ids []
    pure (r.pool, (match r.choice with | some s => s.id | none => "err") ++ " " ++ idsStr r.caller)
  | "onerand", [zone, ign, ids, observed] => do
    -- validating step: the shuffle order is the implementation's choice; accept any outcome that
    -- some permutation of the candidate list produces (the harness has looked every id up before)
    let ign ← bool? ign
    let ids ← ids? ids
    let (p1, l) := collect p ids
    let inZone := l.filter (isElig zone)
    let foreign := l.filter fun s => s.zone != zone && s.free != 0
    let ok : Bool :=
      if !inZone.isEmpty then inZone.any (·.id == observed)
      else if ign && !foreign.isEmpty then foreign.any (·.id == observed)
      else observed == "err"
    pure (p1, (if ok then "accept " else "reject ") ++ idsStr ids)
  | _, _ => none

end Terway.Drv.VSwitch
