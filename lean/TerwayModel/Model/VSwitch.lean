/-
Model of `pkg/vswitch/vswitch.go` (C17): SwitchPool.GetByID / GetOne / Block over a TTL cache.
Time is a natural number (the harness drives a fake clock).  The LRU bound of the cache (100 entries)
is not modelled: the model is the cache while fewer distinct ids than its size are in use.
-/
namespace Terway.VSwitch

structure Sw where
  id   : String
  zone : String
  free : Int
  deriving DecidableEq, Repr

structure Ent where
  sw     : Sw
  expiry : Nat
  deriving Repr

structure Pool where
  ttl   : Nat
  now   : Nat
  cache : List (String × Ent)
  /-- what `DescribeVSwitchByID` answers right now (absent = API error) -/
  cloud : List (String × Sw)
  deriving Repr

def assoc {α : Type} : List (String × α) → String → Option α
  | [], _ => none
  | (k, v) :: rest, id => if k = id then some v else assoc rest id

def remove {α : Type} : List (String × α) → String → List (String × α)
  | [], _ => []
  | (k, v) :: rest, id => if k = id then remove rest id else (k, v) :: remove rest id

/-- `LRUExpireCache.Get`: an entry is returned unless the clock is past its expiry -/
def cached (p : Pool) (id : String) : Option Sw :=
  match assoc p.cache id with
  | some e => if p.now ≤ e.expiry then some e.sw else none
  | none => none

def store (p : Pool) (sw : Sw) : Pool :=
  { p with cache := (sw.id, { sw := sw, expiry := p.now + p.ttl }) :: remove p.cache sw.id }

/-- `GetByID`: cache hit, else ask the cloud and cache the answer for `ttl` -/
def getByID (p : Pool) (id : String) : Pool × Option Sw :=
  match cached p id with
  | some sw => (p, some sw)
  | none =>
    match assoc p.cloud id with
    | some sw => (store p sw, some sw)
    | none => (p, none)

/-- `Block`: a cached entry is replaced by a copy with no free addresses and a fresh TTL -/
def block (p : Pool) (id : String) : Pool :=
  match cached p id with
  | some sw => { p with cache := (id, { sw := { sw with free := 0 }, expiry := p.now + p.ttl }) :: remove p.cache id }
  | none => p

def tick (p : Pool) (dt : Nat) : Pool := { p with now := p.now + dt }

inductive Policy where
  | ordered | random | most
  deriving DecidableEq, Repr

/-- the selection loop: first in-zone candidate with free addresses, else (zone fallback) the
    first foreign-zone candidate with free addresses -/
def scan (zone : String) (ign : Bool) : Pool → List String → List Sw → Pool × Option Sw
  | p, [], fb => (p, fb.find? fun s => s.free ≠ 0)
  | p, id :: rest, fb =>
    match getByID p id with
    | (p', none) => scan zone ign p' rest fb
    | (p', some sw) =>
      if sw.zone ≠ zone then scan zone ign p' rest (if ign then fb ++ [sw] else fb)
      else if sw.free = 0 then scan zone ign p' rest fb
      else (p', some sw)

/-- first pass of policy `most`: look every candidate up (errors skipped) -/
def collect : Pool → List String → Pool × List Sw
  | p, [] => (p, [])
  | p, id :: rest =>
    match getByID p id with
    | (p', none) => collect p' rest
    | (p', some sw) => let (p'', l) := collect p' rest; (p'', sw :: l)

/-- insert before the first element that does not have more free addresses (keeps equal keys in input order) -/
def insertDesc (x : Sw) : List Sw → List Sw
  | [] => [x]
  | y :: ys => if x.free ≥ y.free then x :: y :: ys else y :: insertDesc x ys

/-- `sort.Sort(byAvailableIP)`: descending by free count.  Go's pdqsort is an insertion sort for
    at most 12 elements, hence stable on the candidate lists in use; modelled as a stable insertion sort. -/
def sortMost : List Sw → List Sw
  | [] => []
  | x :: xs => insertDesc x (sortMost xs)

structure Result where
  pool   : Pool
  choice : Option Sw
  /-- the caller's candidate slice after the call -/
  caller : List String

/-- `GetOne`; `rho` is the order produced by `rand.Shuffle` (only used by policy `random`) -/
def getOne (p : Pool) (policy : Policy) (zone : String) (ign : Bool) (ids : List String) (rho : List String) : Result :=
  match policy with
  | .ordered => let (p', r) := scan zone ign p ids []; { pool := p', choice := r, caller := ids }
  | .random => let (p', r) := scan zone ign p rho []; { pool := p', choice := r, caller := ids }
  | .most =>
    let (p1, sws) := collect p ids
    let order := (sortMost sws).map (·.id)
    let (p', r) := scan zone ign p1 order []
    { pool := p', choice := r, caller := ids }

end Terway.VSwitch
