/-
Model of the node daemon's request handling (C04, C05, C09):
  daemon/daemon.go   AllocIP / ReleaseIP / GetIPInfo / gcPods (pending-pod guard, service RW lock)
  daemon/builder.go + pkg/storage   the record store (disk first, memory second, full reload on open)
  pkg/eni            seen through its contract: `PeekAvailable` (the pod's own entry first, else an
                     allocatable one), release only by the owner, `Local.load` re-applying stored bindings
An address is `(eni, ip)`; `ip` is a number, IPv6 addresses are the numbers `≥ v6Base`.
-/
namespace Terway.Daemon

def v6Base : Nat := 1000000

structure Rec where
  cid : String
  eni : String
  ips : List Nat
  /-- `PodInfo.IPStickTime ≠ 0` as stored with the record -/
  stick : Bool
  deriving DecidableEq, Repr

structure Ent where
  eni : String
  ip : Nat
  owner : Option String
  valid : Bool
  deriving DecidableEq, Repr

def Ent.v6 (e : Ent) : Bool := decide (v6Base ≤ e.ip)

structure Svc where
  db : List (String × Rec)
  pool : List Ent
  pending : List String
  /-- centralized IPAM (`ipamType == crd`): no sticky handling -/
  crd : Bool
  /-- dual stack: a pod gets one IPv4 and one IPv6 address of the same ENI -/
  dual : Bool
  deriving Repr

/-- what `k8s.GetPod` answers -/
inductive PodGet where
  | found (stick : Bool)
  | notFound
  | error
  deriving DecidableEq, Repr

inductive Reply where
  | processing
  | err
  | ok (ips : List Nat)
  deriving DecidableEq, Repr

def dbGet (db : List (String × Rec)) (p : String) : Option Rec :=
  match db with
  | [] => none
  | (k, r) :: rest => if k = p then some r else dbGet rest p

def dbDel (db : List (String × Rec)) (p : String) : List (String × Rec) :=
  match db with
  | [] => []
  | (k, r) :: rest => if k = p then dbDel rest p else (k, r) :: dbDel rest p

def dbPut (db : List (String × Rec)) (p : String) (r : Rec) : List (String × Rec) := (p, r) :: dbDel db p

/-- `Set.Release(podID, ip)` for each stored address: only the owner's release clears the owner -/
def release (pool : List Ent) (p eni : String) (ips : List Nat) : List Ent :=
  pool.map fun e => if e.eni = eni ∧ e.ip ∈ ips ∧ e.owner = some p then { e with owner := none } else e

def claim (pool : List Ent) (p eni : String) (ips : List Nat) : List Ent :=
  pool.map fun e => if e.eni = eni ∧ e.ip ∈ ips then { e with owner := some p } else e

/-- `PeekAvailable(p)` on interface `eni`, one family: the pod's own entry if it has one there,
    otherwise an allocatable one -/
def peekOK (pool : List Ent) (p eni : String) (six : Bool) (e : Ent) : Bool :=
  e ∈ pool && e.eni == eni && e.v6 == six &&
  (if pool.any (fun x => x.eni == eni && x.v6 == six && x.owner == some p) then e.owner == some p
   else e.owner == none && e.valid)

/-- the entries an ADD of `p` may be served with: one per enabled family, all on one interface;
    a stored record pins the interface -/
def pickOK (s : Svc) (p : String) (pick : List Ent) : Bool :=
  match pick with
  | [e4] => !s.dual && peekOK s.pool p e4.eni false e4 && pinOK e4.eni
  | [e4, e6] => s.dual && peekOK s.pool p e4.eni false e4 && peekOK s.pool p e4.eni true e6 && pinOK e4.eni
  | _ => false
where
  pinOK (eni : String) : Bool :=
    match dbGet s.db p with
    | some r => r.eni == eni
    | none => true

/-- ADD body (the request is past the pending-pod guard) -/
def addBody (s : Svc) (p cid : String) (v : PodGet) (pick : List Ent) : Svc × Reply :=
  match v with
  | .found stick =>
    if pick = [] then (s, .err)               -- no interface can serve the request
    else if pickOK s p pick then
      let eni := (pick.head?.map (·.eni)).getD ""
      let ips := pick.map (·.ip)
      ({ s with pool := claim s.pool p eni ips,
                db := dbPut s.db p { cid := cid, eni := eni, ips := ips, stick := stick } }, .ok ips)
    else (s, .err)                             -- the model rejects what was observed
  | _ => (s, .err)

/-- the pod's record names this pool entry -/
def recordedFor (s : Svc) (p : String) (e : Ent) : Bool :=
  match dbGet s.db p with
  | some r => r.eni == e.eni && r.ips.contains e.ip
  | none => false

/-- an ADD that fails after the pool served it (cancelled request): `back` says whether the addresses this
    request bound were handed back (`commit` on a done context / the rollback release) or stayed bound.
    An address the pod's record names stays the pod's either way. -/
def addFailBody (s : Svc) (p : String) (pick : List Ent) (back : Bool) : Svc × Reply :=
  if pick = [] then (s, .err)
  else if pickOK s p pick then
    let eni := (pick.head?.map (·.eni)).getD ""
    -- AllocIP rolls back what a failed Allocate returned, except what the pod's record names: an entry the pool
    -- already counted as the pod's without a record (left by an earlier failed request) is handed back as well
    let fresh := (pick.filter fun e => e.owner = none || !(recordedFor s p e)).map (·.ip)
    ({ s with pool := if back then release s.pool p eni fresh else claim s.pool p eni (pick.map (·.ip)) }, .err)
  else (s, .err)

/-- DEL body -/
def delBody (s : Svc) (p cid : String) (v : PodGet) : Svc × Reply :=
  match v with
  | .error => (s, .err)
  | .notFound => (s, .ok [])                 -- pod object gone and not cached: nothing is released here
  | .found stick =>
    match dbGet s.db p with
    | none => (s, .ok [])
    | some r =>
      if cid ≠ r.cid then (s, .ok [])        -- stale sandbox
      else if s.crd ∨ !stick then
        ({ s with pool := release s.pool p r.eni r.ips, db := dbDel s.db p }, .ok [])
      else (s, .ok [])                        -- sticky address: kept for the GC

/-- GET body -/
def getBody (s : Svc) (p cid : String) (v : PodGet) : Svc × Reply :=
  match v with
  | .found _ =>
    match dbGet s.db p with
    | none => (s, .ok [])
    | some r => if cid ≠ r.cid then (s, .ok []) else (s, .ok r.ips)
  | _ => (s, .err)

inductive Kind where
  | add (pick : List Ent)
  | addFail (pick : List Ent) (back : Bool)
  | del
  | get
  deriving Repr

def body (s : Svc) (k : Kind) (p cid : String) (v : PodGet) : Svc × Reply :=
  match k with
  | .add pick => addBody s p cid v pick
  | .addFail pick back => addFailBody s p pick back
  | .del => delBody s p cid v
  | .get => getBody s p cid v

/-- a whole request that nobody overlaps with -/
def request (s : Svc) (k : Kind) (p cid : String) (v : PodGet) : Svc × Reply :=
  if p ∈ s.pending then (s, .processing) else body s k p cid v

/-- a request enters and parks (inside `GetPod`): only the guard has been passed -/
def enter (s : Svc) (p : String) : Svc × Reply :=
  if p ∈ s.pending then (s, .processing) else ({ s with pending := p :: s.pending }, .ok [])

/-- the parked request runs to completion -/
def leave (s : Svc) (k : Kind) (p cid : String) (v : PodGet) : Svc × Reply :=
  ({ (body s k p cid v).1 with pending := s.pending.erase p }, (body s k p cid v).2)

/-! ### garbage collection -/

/-- what a pass learns: pods live on the node (sandbox not exited), and the API server's answer for
    the others (`none` = the lookup failed; an unlisted pod does not exist) -/
structure GcView where
  live : List String
  exists_ : List (String × Option Bool)
  deriving Repr

def apiExists (g : GcView) (p : String) : Option Bool := (g.exists_.lookup p).getD (some false)

inductive GcAct where
  | keep | unstick | collect
  deriving DecidableEq, Repr

/-- the decision for one record -/
def gcDecide (crd : Bool) (g : GcView) (p : String) (r : Rec) : GcAct :=
  if p ∈ g.live then .keep
  else match apiExists g p with
    | none => .keep
    | some true => .keep
    | some false => if !crd && r.stick then .unstick else .collect

def gcDb (crd : Bool) (g : GcView) : List (String × Rec) → List (String × Rec)
  | [] => []
  | (p, r) :: rest =>
    match gcDecide crd g p r with
    | .keep => (p, r) :: gcDb crd g rest
    | .unstick => (p, { r with stick := false }) :: gcDb crd g rest
    | .collect => gcDb crd g rest

def gcPool (crd : Bool) (g : GcView) : List (String × Rec) → List Ent → List Ent
  | [], pool => pool
  | (p, r) :: rest, pool =>
    gcPool crd g rest (if gcDecide crd g p r = .collect then release pool p r.eni r.ips else pool)

/-- one `gcPods` pass; it holds the service's write lock, so it runs only when no request is in flight -/
def gcPass (s : Svc) (g : GcView) : Option Svc :=
  if s.pending ≠ [] then none
  else some { s with db := gcDb s.crd g s.db, pool := gcPool s.crd g s.db s.pool }

/-! ### restart -/

def ownerOf (db : List (String × Rec)) (eni : String) (ip : Nat) : Option String :=
  match db with
  | [] => none
  | (p, r) :: rest => if r.eni = eni ∧ ip ∈ r.ips then some p else ownerOf rest eni ip

/-- start-up from the stored records and what the cloud reports as attached: every reported address
    is in the pool, valid; stored bindings whose interface and address are still there are
    re-applied (`Local.load`); nothing else of the old process survives -/
def restart (s : Svc) (cloud : List (String × Nat)) : Svc :=
  { s with pending := [],
           pool := cloud.map fun (eni, ip) =>
             { eni := eni, ip := ip, valid := true, owner := ownerOf s.db eni ip } }

/-- the process dies while a request is in its database write: `wrote` says on which side -/
def crash (s : Svc) (k : Kind) (p cid : String) (v : PodGet) (wrote : Bool) (cloud : List (String × Nat)) : Svc :=
  restart { s with db := if wrote then (body s k p cid v).1.db else s.db } cloud

/-! ### histories -/

/-- one externally triggered event -/
inductive Op where
  | req (k : Kind) (p cid : String) (v : PodGet)
  | enter (p : String)
  | leave (k : Kind) (p cid : String) (v : PodGet)
  | gc (g : GcView)
  | restart (cloud : List (String × Nat))
  | crash (k : Kind) (p cid : String) (v : PodGet) (wrote : Bool) (cloud : List (String × Nat))
  deriving Repr

def apply (s : Svc) : Op → Svc
  | .req k p cid v => (request s k p cid v).1
  | .enter p => (enter s p).1
  | .leave k p cid v => if p ∈ s.pending then (leave s k p cid v).1 else s
  | .gc g => (gcPass s g).getD s
  | .restart c => restart s c
  | .crash k p cid v w c => crash s k p cid v w c

def run (s : Svc) (ops : List Op) : Svc := ops.foldl apply s

/-- a freshly started daemon: empty store, the pool as the cloud reports it -/
def boot (crd dual : Bool) (cloud : List (String × Nat)) : Svc :=
  restart { db := [], pool := [], pending := [], crd := crd, dual := dual } cloud

end Terway.Daemon


/-! ### the record store: disk first, memory second, full reload on open -/
namespace Terway.Daemon.Store

def put (m : List (String × String)) (k v : String) : List (String × String) :=
  (k, v) :: m.filter (·.1 ≠ k)
def del (m : List (String × String)) (k : String) : List (String × String) := m.filter (·.1 ≠ k)

/-- one write of the stream: `(isPut, key, value)` -/
def apply (m : List (String × String)) (o : Bool × String × String) : List (String × String) :=
  if o.1 then put m o.2.1 o.2.2 else del m o.2.1

/-- the file after a sequence of completed writes -/
def disk (ops : List (Bool × String × String)) : List (String × String) := ops.foldl apply []

/-- `DiskStorage`: the disk write happens first, the memory mirror follows -/
structure St where
  disk : List (String × String)
  mem : List (String × String)

/-- a write is two steps; the process may die between them -/
def writeDisk (s : St) (o : Bool × String × String) : St := { s with disk := apply s.disk o }
def writeMem (s : St) (o : Bool × String × String) : St := { s with mem := apply s.mem o }
def write (s : St) (o : Bool × String × String) : St := writeMem (writeDisk s o) o
/-- open: the memory mirror is rebuilt from the file -/
def reopen (s : St) : St := { s with mem := s.disk }

end Terway.Daemon.Store
