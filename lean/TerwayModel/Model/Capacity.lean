/-
Model of the capacity arithmetic behind C19 (all integers, as in the Go code):
  pkg/aliyun/client/limit.go       getInstanceType, Limits methods
  daemon/config.go                 getPoolConfig      (EniCapRatio at its default 1)
  daemon/daemon.go                 checkInstance
  pkg/eni/node_reconcile.go        CRD-mode ENISpec switches and Flavor
  pkg/controller/node/node.go      k8sAnno (max-available-ip), patchNodeRes (extended resources)
-/
namespace Terway.Capacity

/-- the fields of `ecs.InstanceType` that matter -/
structure InstanceType where
  eniQuantity  : Int
  eniPrivateIp : Int
  eniIpv6      : Int
  eniTotal     : Int
  eriQuantity  : Int
  trunkSupported : Bool
  deriving Repr

structure Limits where
  adapters       : Int
  totalAdapters  : Int
  ipv4Per        : Int
  ipv6Per        : Int
  member         : Int
  maxMember      : Int
  erdmaAdapters  : Int
  deriving Repr, DecidableEq

def getInstanceType (t : InstanceType) : Limits :=
  let member := if t.trunkSupported then t.eniTotal - t.eniQuantity else 0
  let maxMember := if t.trunkSupported then t.eniTotal - 2 else 0
  { adapters := t.eniQuantity, totalAdapters := t.eniTotal,
    ipv4Per := max t.eniPrivateIp 0, ipv6Per := max t.eniIpv6 0,
    member := max member 0, maxMember := max maxMember 0, erdmaAdapters := max t.eriQuantity 0 }

def Limits.erdmaRes (l : Limits) : Int :=
  if l.erdmaAdapters ≤ 0 ∨ l.adapters ≤ 2 then 0
  else if l.adapters ≥ 8 then min 2 l.erdmaAdapters
  else min 1 l.erdmaAdapters

def Limits.multiIPPod (l : Limits) : Int := (l.adapters - 1) * l.ipv4Per
def Limits.exclusiveENIPod (l : Limits) : Int := l.adapters - 1
def Limits.supportIPv6 (l : Limits) : Bool := decide (l.ipv6Per > 0)
def Limits.supportMultiIPIPv6 (l : Limits) : Bool := decide (l.ipv6Per = l.ipv4Per)

inductive Mode where
  | multiIP | eniOnly
  deriving DecidableEq, Repr

inductive Stack where
  | ipv4 | dual | ipv6 | other
  deriving DecidableEq, Repr

structure Cfg where
  maxENI : Int
  minENI : Int
  maxPool : Int
  minPool : Int
  eniCapShift : Int
  enableTrunk : Bool
  enableERDMA : Bool
  ipamCRD : Bool
  ipStack : Stack
  deriving Repr

structure PoolCfg where
  maxPool : Int
  minPool : Int
  capacity : Int
  maxENI : Int
  maxMember : Int
  maxIPPerENI : Int
  erdmaCap : Int
  deriving Repr, DecidableEq

/-- `getPoolConfig` with `EniCapRatio = 1` -/
def poolConfig (cfg : Cfg) (mode : Mode) (l : Limits) : PoolCfg :=
  match mode with
  | .multiIP =>
    let maxENI0 := l.adapters + cfg.eniCapShift - 1
    let maxENI := if cfg.maxENI > 0 ∧ cfg.maxENI < maxENI0 then cfg.maxENI else maxENI0
    let ipPer := l.ipv4Per
    let capacity := maxENI * ipPer
    let maxPool := if cfg.maxPool > capacity then capacity else cfg.maxPool
    let minPool0 := if cfg.minENI > 0 then cfg.minENI * ipPer else cfg.minPool
    let minPool := if minPool0 > maxPool then maxPool else minPool0
    let erdmaCap := if cfg.enableERDMA then l.erdmaRes * l.ipv4Per else 0
    { maxPool := if cfg.ipamCRD then 0 else maxPool, minPool := if cfg.ipamCRD then 0 else minPool,
      capacity := capacity, maxENI := maxENI, maxMember := l.member, maxIPPerENI := ipPer, erdmaCap := erdmaCap }
  | .eniOnly =>
    { maxPool := if cfg.ipamCRD then 0 else 0, minPool := 0, capacity := 0, maxENI := 0, maxMember := 0, maxIPPerENI := 0, erdmaCap := 0 }

structure Switches where
  ipv4 : Bool
  ipv6 : Bool
  trunk : Bool
  erdma : Bool
  deriving Repr, DecidableEq

/-- `checkInstance`; `osErdma` = the node-capability file lists erdma -/
def checkInstance (l : Limits) (mode : Mode) (cfg : Cfg) (osErdma : Bool) : Switches :=
  let v4 := cfg.ipStack = .ipv4 ∨ cfg.ipStack = .dual
  let v6req := cfg.ipStack = .dual ∨ cfg.ipStack = .ipv6
  let v6 := v6req ∧ l.supportIPv6 ∧ ¬ (mode = .multiIP ∧ ¬ l.supportMultiIPIPv6)
  { ipv4 := decide v4, ipv6 := decide v6,
    trunk := cfg.enableTrunk && decide (l.member > 0),
    erdma := cfg.enableERDMA && decide (l.erdmaRes > 0) && osErdma }

/-- `NodeCap` as the controller records it (`EriQuantity := limit.ERDMARes()`) -/
structure NodeCap where
  adapters : Int
  ipv4Per : Int
  ipv6Per : Int
  member : Int
  eriQuantity : Int
  deriving Repr

inductive FlavorKind where
  | trunk | erdma | standard
  deriving DecidableEq, Repr

structure Flavor where
  kind : FlavorKind
  count : Int
  deriving DecidableEq, Repr

/-- CRD-mode switches of `nodeReconcile.Reconcile`; `none` = unsupported ip stack (error) -/
def crdSwitches (cap : NodeCap) (cfg : Cfg) (osErdma exclusive : Bool) : Option Switches :=
  let stack : Option (Bool × Bool) := match cfg.ipStack with
    | .ipv4 => some (true, false)
    | .dual => some (true, decide (cap.ipv6Per = cap.ipv4Per))
    | .ipv6 => some (false, true)
    | .other => none
  stack.map fun (v4, v6) =>
    { ipv4 := v4, ipv6 := v6,
      trunk := cfg.enableTrunk && decide (cap.member > 0) && !exclusive,
      erdma := cfg.enableERDMA && decide (cap.eriQuantity > 0) && osErdma }

def flavorOf (t e : Bool) (std : Int) : List Flavor :=
  (if t then [Flavor.mk .trunk 1] else []) ++ (if e then [Flavor.mk .erdma 1] else []) ++ [Flavor.mk .standard std]

/-- has a trunk slot: enabled and a secondary slot is left -/
def hasTrunk (cap : NodeCap) (sw : Switches) : Bool := sw.trunk && decide (cap.adapters - 1 > 0)
def afterTrunk (cap : NodeCap) (sw : Switches) : Int := if hasTrunk cap sw then cap.adapters - 1 - 1 else cap.adapters - 1
def hasErdma (cap : NodeCap) (sw : Switches) : Bool := sw.erdma && decide (afterTrunk cap sw > 0)
def afterErdma (cap : NodeCap) (sw : Switches) : Int := if hasErdma cap sw then afterTrunk cap sw - 1 else afterTrunk cap sw

/-- the Flavor list written to the Node CR -/
def flavor (cap : NodeCap) (sw : Switches) : List Flavor :=
  flavorOf (hasTrunk cap sw) (hasErdma cap sw) (afterErdma cap sw)

def slots (fl : List Flavor) : Int := (fl.map (·.count)).foldl (· + ·) 0

/-- `k8sAnno`: the `max-available-ip` value (absent when not positive) -/
def annoIPs (exclusive : Bool) (fl : List Flavor) (ipv4Per : Int) : Int :=
  if exclusive then
    fl.foldl (fun acc f => if f.kind = .standard then f.count else acc) 0
  else
    fl.foldl (fun acc f => if f.kind = .standard ∨ f.kind = .trunk then acc + f.count * ipv4Per else acc) 0

/-- `patchNodeRes`: `(resource, quantity)`; `none` = nothing reported -/
def nodeRes (exclusive : Bool) (fl : List Flavor) (sw : Switches) (trunkReady : Bool) (member : Int) : Option (String × Int) :=
  if exclusive then
    some ("eni", fl.foldl (fun acc f => if f.kind = .standard then f.count else acc) 0)
  else if sw.trunk ∧ trunkReady then some ("member-eni", member) else none

/-! ## the Node CR's capacity follows the instance type (pkg/controller/node/node.go `createOrUpdate`) -/

/-- what the node controller reads off the Kubernetes Node: instance type, instance id (provider id), zone, region -/
structure NodeMeta where
  type : Nat
  id : Nat
  zone : Nat
  region : Nat
  deriving DecidableEq, Repr

/-- the Node CR as far as capacity goes: the metadata it records and the instance type whose limits `Spec.NodeCap`
    carries (`none` = no capacity written yet) -/
structure NodeCR where
  md : NodeMeta
  capOf : Option Nat
  deriving DecidableEq, Repr

/-- one reconcile: when the recorded metadata differs from the node's in any field, metadata and capacity are
    rewritten together from the limits of the node's current type; a failing limits lookup leaves the stored CR as
    it was (the error is returned before anything is written) -/
def nodeReconcile (cr : Option NodeCR) (info : NodeMeta) (lookupFails : Bool) : Option NodeCR × Bool :=
  match cr with
  | some c =>
    if c.md = info then (some c, true)
    else if lookupFails then (some c, false)
    else (some { md := info, capOf := some info.type }, true)
  | none =>
    if lookupFails then (none, false) else (some { md := info, capOf := some info.type }, true)

def nodeRun (cr : Option NodeCR) : List (NodeMeta × Bool) → Option NodeCR
  | [] => cr
  | (i, f) :: rest => nodeRun (nodeReconcile cr i f).1 rest

end Terway.Capacity
