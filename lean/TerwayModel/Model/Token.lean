/-
Model of the idempotency-token machinery behind C16:
  pkg/aliyun/client/token.go    SimpleIdempotentKeyGenerator (GenerateKey / PutBack over k8s.io/utils/lru)
  pkg/aliyun/client/options.go  Finish / EFLO builders: which request fields enter the parameter hash
Each call runs under the generator's mutex, so a call is one atomic step of the model.
-/
namespace Terway.Token

-- parameter hashes and tokens are modelled as natural numbers (abstract identities)
/-- LRU content, most recently used first: parameter hash ↦ stack of returned tokens -/
abbrev Cache := List (Nat × List Nat)

structure Gen where
  cap   : Nat
  cache : Cache
  /-- fresh-UUID source: every new token is `next` (assumption: uuid.NewString never repeats) -/
  next  : Nat
  /-- ghost: tokens handed out and not (yet) put back -/
  out   : List Nat
  /-- ghost: under which parameter hash each token was first issued -/
  prov  : List (Nat × Nat)
  deriving Repr

def Gen.new (cap : Nat) : Gen := { cap := cap, cache := [], next := 0, out := [], prov := [] }

def lookup (c : Cache) (h : Nat) : Option (List Nat) :=
  match c with
  | [] => none
  | (k, v) :: rest => if k = h then some v else lookup rest h

def without : Cache → Nat → Cache
  | [], _ => []
  | (k, v) :: rest, h => if k = h then without rest h else (k, v) :: without rest h

/-- entry `h` becomes the most recently used one -/
def putFront (c : Cache) (h : Nat) (v : List Nat) : Cache := (h, v) :: without c h

/-- `lru.Cache.Get`: a hit moves the entry to the front -/
def touch (c : Cache) (h : Nat) : Cache :=
  match lookup c h with
  | some v => putFront c h v
  | none => c

/-- `removeOldest` when over capacity -/
def evict (cap : Nat) (c : Cache) : Cache := if c.length > cap then c.dropLast else c

/-- `lru.Cache.Add`: update in place (moved to front) or insert and evict the oldest -/
def add (cap : Nat) (c : Cache) (h : Nat) (v : List Nat) : Cache :=
  match lookup c h with
  | some _ => putFront c h v
  | none => evict cap (putFront c h v)

/-- `GenerateKey` -/
def generate (g : Gen) (h : Nat) : Gen × Nat :=
  let fresh : Gen × Nat :=
    ({ g with cache := touch g.cache h, next := g.next + 1, out := g.next :: g.out,
              prov := (g.next, h) :: g.prov }, g.next)
  match lookup g.cache h with
  | some uuids =>
    match uuids.getLast? with
    | some id =>
      let c1 := touch g.cache h
      let rest := uuids.dropLast
      let c2 := if rest = [] then without c1 h else add g.cap c1 h rest
      ({ g with cache := c2, out := id :: g.out }, id)
    | none => fresh
  | none => fresh

/-- `PutBack` -/
def putBack (g : Gen) (h : Nat) (t : Nat) : Gen :=
  let c' := match lookup g.cache h with
    | some uuids => add g.cap (touch g.cache h) h (uuids ++ [t])
    | none => add g.cap g.cache h [t]
  { g with cache := c', out := g.out.erase t }

inductive Op where
  | gen (h : Nat)
  | put (h : Nat) (t : Nat)
  deriving Repr, DecidableEq

def Op.hash : Op → Nat
  | .gen h => h
  | .put h _ => h

def step (g : Gen) : Op → Gen
  | .gen h => (generate g h).1
  | .put h t => putBack g h t

def run (g : Gen) (ops : List Op) : Gen := ops.foldl step g

/-! request parameters that enter the hash (`md5Hash(req)` before the token is set) -/

structure CreateParams where
  vswitch : String
  trunk : Bool
  erdma : Bool
  securityGroups : List String
  resourceGroup : String
  ipCount : Nat
  ipv6Count : Nat
  deleteOnRelease : Option Bool
  sourceDestCheck : Option Bool
  deriving DecidableEq, Repr

def tagLE (a b : String × String) : Bool := decide (a.1 ≤ b.1)

/-- `Finish` turns the tag map into a list (iteration order = the order of `tags` here) and sorts it by key -/
def sortTags (tags : List (String × String)) : List (String × String) := tags.mergeSort tagLE

/-- what is hashed for a create request: the fields as the builder serialises them -/
def createHashInput (p : CreateParams) (tags : List (String × String)) :
    CreateParams × List (String × String) :=
  -- SecondaryPrivateIpAddressCount is only set for IPCount > 1 (value IPCount-1): 0 and 1 coincide
  ({ p with ipCount := if p.ipCount > 1 then p.ipCount - 1 else 0 }, sortTags tags)

/-- everything that can be hashed: one constructor per request builder -/
inductive HashInput where
  | create (p : CreateParams) (tags : List (String × String))
  | assign4 (eni : String) (count : Nat)
  | assign6 (eni : String) (count : Nat)
  | efloCreate (vswitch sg inst zone : String)
  deriving DecidableEq, Repr

/-- `CreateNetworkInterfaceOptions.Finish`: rejected without a vSwitch or security group -/
def finishCreate (p : CreateParams) (tags : List (String × String)) : Option HashInput :=
  if p.vswitch = "" ∨ p.securityGroups = [] then none
  else let (q, ts) := createHashInput p tags; some (.create q ts)

/-- `AssignPrivateIPAddressOptions.Finish` / `AssignIPv6AddressesOptions.Finish` -/
def finishAssign4 (eni : String) (count : Int) : Option HashInput :=
  if eni = "" ∨ count ≤ 0 then none else some (.assign4 eni count.toNat)
def finishAssign6 (eni : String) (count : Int) : Option HashInput :=
  if eni = "" ∨ count ≤ 0 then none else some (.assign6 eni count.toNat)

/-- `CreateNetworkInterfaceOptions.EFLO` -/
def finishEfloCreate (p : CreateParams) (inst zone : String) : Option HashInput :=
  if p.ipCount > 1 ∨ p.vswitch = "" then none
  else match p.securityGroups with
    | [] => none
    | sg :: _ => if sg = "" then none else some (.efloCreate p.vswitch sg inst zone)

end Terway.Token
