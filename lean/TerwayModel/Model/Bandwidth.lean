import TerwayModel.Generated.Consts
/-
Model of `pkg/k8s/k8s.go:parseBandwidth` (C15), over runes.  Slice expressions are modelled with their
run-time panics; `strconv.ParseFloat` is modelled on the only inputs that can reach it here (the
numeric part never contains a letter, so no exponent / hex / inf / nan): sign, digits, one optional dot.
The result uses exact rational arithmetic (floor of mantissa·multiplier / 10^scale); Go computes in
float64, which agrees on the domain stated in DESIGN.md (the correspondence run compares values there
and outcome classes everywhere).
-/
namespace Terway.Bandwidth

/-- the three library predicates/maps the function calls; theorems hold for every choice of them -/
structure Cfg where
  isLetter : Char → Bool
  isSpace  : Char → Bool
  upper    : Char → Char

inductive Out where
  | ok (n : Nat)
  | err
  | panic
  deriving DecidableEq, Repr

/-- `strings.IndexFunc`: index of the first rune satisfying `p`, `none` = −1 -/
def indexFunc (p : Char → Bool) : List Char → Option Nat
  | [] => none
  | c :: cs => if p c then some 0 else (indexFunc p cs).map (· + 1)

/-- `strings.TrimSpace` -/
def trim (isSpace : Char → Bool) (s : List Char) : List Char :=
  ((s.dropWhile isSpace).reverse.dropWhile isSpace).reverse

/-- Go `s[:i]`: `none` = slice bounds out of range (panic) -/
def slicePrefix (s : List Char) (i : Int) : Option (List Char) :=
  if 0 ≤ i ∧ i ≤ (s.length : Int) then some (s.take i.toNat) else none

/-- Go `s[i:]` -/
def sliceSuffix (s : List Char) (i : Int) : Option (List Char) :=
  if 0 ≤ i ∧ i ≤ (s.length : Int) then some (s.drop i.toNat) else none

/-- a decimal without exponent: value = ± mant / 10^scale -/
structure Dec where
  neg   : Bool
  mant  : Nat
  scale : Nat
  deriving DecidableEq, Repr

def digitVal? (c : Char) : Option Nat :=
  if '0' ≤ c ∧ c ≤ '9' then some (c.toNat - 48) else none

/-- what the scanner saw last (`underscoreOK`: an underscore needs a digit on both sides) -/
inductive Prev where
  | start | digit | underscore | other
  deriving DecidableEq, Repr

/-- digits with at most one dot and digit-separating underscores; state `(mant, scale, sawDot, sawDigit, prev)` -/
def scanDec : List Char → Nat → Nat → Bool → Bool → Prev → Option (Nat × Nat)
  | [], m, sc, _, sawDigit, prev => if sawDigit ∧ prev ≠ .underscore then some (m, sc) else none
  | c :: cs, m, sc, sawDot, sawDigit, prev =>
    match digitVal? c with
    | some d => scanDec cs (10 * m + d) (if sawDot then sc + 1 else sc) sawDot true .digit
    | none =>
      if c = '_' then (if prev = .digit then scanDec cs m sc sawDot sawDigit .underscore else none)
      else if prev = .underscore then none
      else if c = '.' ∧ !sawDot then scanDec cs m sc true sawDigit .other else none

def splitSign : List Char → Bool × List Char
  | '+' :: r => (false, r)
  | '-' :: r => (true, r)
  | r => (false, r)

/-- `strconv.ParseFloat` restricted to letter-free input -/
def parseDec (s : List Char) : Option Dec :=
  (scanDec (splitSign s).2 0 0 false false .start).map fun ms => { neg := (splitSign s).1, mant := ms.1, scale := ms.2 }

/-- the `switch multiple` statement, in source order -/
def mult (u : List Char) : Option Nat :=
  if u ∈ Gen.bwUnitsT then some Gen.bwTera
  else if u ∈ Gen.bwUnitsG then some Gen.bwGiga
  else if u ∈ Gen.bwUnitsM then some Gen.bwMega
  else if u ∈ Gen.bwUnitsK then some Gen.bwKilo
  else if u ∈ Gen.bwUnitsB then some 1
  else none

def value (d : Dec) (m : Nat) : Nat := d.mant * m / 10 ^ d.scale

def parseBandwidth (cfg : Cfg) (s : List Char) : Out :=
  if s.isEmpty then .err else
  let s1 := (trim cfg.isSpace s).map cfg.upper
  let i0 : Int := match indexFunc cfg.isLetter s1 with
    | some k => (k : Int)
    | none => -1
  -- `if i < 0 { i = len(s) }` — present iff the regenerated site fact says so
  let i : Int := if Gen.bwNoLetterGuard = 1 ∧ i0 < 0 then (s1.length : Int) else i0
  match slicePrefix s1 i, sliceSuffix s1 i with
  | some num, some unit =>
    match parseDec num with
    | none => .err
    | some d =>
      if d.neg ∨ d.mant = 0 then .err      -- `bytes <= 0`
      else match mult unit with
        | none => .err
        | some m => .ok (value d m)
  | _, _ => .panic

/-- the ASCII instance used by the driver (non-ASCII input is outside the driver's domain) -/
def asciiCfg : Cfg :=
  { isLetter := fun c => ('a' ≤ c ∧ c ≤ 'z') ∨ ('A' ≤ c ∧ c ≤ 'Z'),
    isSpace := fun c => c = ' ' ∨ c = '\t' ∨ c = '\n' ∨ c = '\r' ∨ c = '\x0b' ∨ c = '\x0c',
    upper := fun c => if 'a' ≤ c ∧ c ≤ 'z' then Char.ofNat (c.toNat - 32) else c }

end Terway.Bandwidth
