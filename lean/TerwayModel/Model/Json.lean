/-
A small JSON value type (core Lean only) with association-list objects, and the merge patch of
RFC 7396 exactly as `github.com/evanphx/json-patch` v5.6.0 (`merge.go`) implements it — including its
deviations from the RFC: nulls are pruned from a replacing value, also inside the objects of arrays,
except when an array/scalar replaces an object.
Used by `types/daemon/config.go:MergeConfigAndUnmarshal` (C20).
-/
namespace Terway.Json

inductive Json where
  | null
  | bool (b : Bool)
  | num (n : Int)
  | str (s : String)
  | arr (xs : List Json)
  | obj (kvs : List (String × Json))
  deriving Repr, Inhabited

abbrev Kvs := List (String × Json)

def Json.isNull : Json → Bool
  | .null => true
  | _ => false

def lookup : Kvs → String → Option Json
  | [], _ => none
  | (k, v) :: rest, key => if k = key then some v else lookup rest key

/-- remove every binding of `key` (Go: `delete(map, key)`) -/
def erase : Kvs → String → Kvs
  | [], _ => []
  | (k, v) :: rest, key => if k = key then erase rest key else (k, v) :: erase rest key

/-- replace the first binding in place, or append (Go: `map[key] = v`) -/
def put : Kvs → String → Json → Kvs
  | [], key, v => [(key, v)]
  | (k, c) :: rest, key, v => if k = key then (k, v) :: rest else (k, c) :: put rest key v

def keys (d : Kvs) : List String := d.map (·.1)

mutual
/-- `pruneNulls` -/
def prune : Json → Json
  | .obj kvs => .obj (pruneKvs kvs)
  | .arr xs => .arr (pruneList xs)
  | j => j
/-- `pruneDocNulls`: null members are dropped, the others pruned -/
def pruneKvs : Kvs → Kvs
  | [] => []
  | (k, v) :: rest =>
    match v with
    | .null => pruneKvs rest
    | v => (k, prune v) :: pruneKvs rest
/-- `pruneAryNulls`: null elements stay, the others are pruned -/
def pruneList : List Json → List Json
  | [] => []
  | x :: xs => prune x :: pruneList xs
end

mutual
/-- `merge(cur, patch)` -/
def mergeVal (cur : Json) : Json → Json
  | .obj p =>
    match cur with
    | .obj c => .obj (mergeKvs c p)
    | _ => .obj (pruneKvs p)            -- cur is not a document: pruned patch replaces it
  | p =>
    match cur with
    | .obj _ => p                        -- patch is not a document: replaces as is
    | _ => prune p
/-- `mergeDocs(doc, patch)`: the patch members applied one after the other -/
def mergeKvs (doc : Kvs) : Kvs → Kvs
  | [] => doc
  | (k, v) :: rest =>
    match v with
    | .null => mergeKvs (erase doc k) rest
    | v =>
      match lookup doc k with
      | none => mergeKvs (put doc k (prune v)) rest
      | some .null => mergeKvs (put doc k (prune v)) rest
      | some cur => mergeKvs (put doc k (mergeVal cur v)) rest
end

/-- `MergePatch(doc, patch)` on parsed values; `none` = ErrBadJSONDoc / ErrBadJSONPatch.
    (Syntax errors are decided before this function: the harness only sends well-formed JSON.) -/
def mergePatch (doc patch : Json) : Option Json :=
  match doc, patch with
  | .null, _ => none
  | _, .null => none
  | .obj d, .obj p => some (.obj (mergeKvs d p))
  | _, .obj p => some (.obj (pruneKvs p))      -- "not a doc, so we turn straight into the patch"
  | _, .arr xs => some (.arr (pruneList xs))
  | _, _ => none

end Terway.Json
