import TerwayModel.Generated.Consts
/-
Model of the daemon's start-up filter over stored pod records (daemon/daemon.go `filterENINotFound`, reached
from the builder through `resourceDB.List` → `getPodResources`): for every stored record, the `eniIp` items
whose interface is no longer attached are dropped before the records are handed to `eni.Manager.Run`.
An item names its interface by `eni_id` or — records written by releases that did not store it — by the MAC
in front of the first '.' of its `id` ("<mac>.<ipv4>").

The Go loop removes items in place while it walks the slice by index; an index past the (shrunken) slice is a
panic of the daemon at every start, so the model keeps the index arithmetic: `none` = index out of range.
-/
namespace Terway.Stored

structure Item where
  /-- `Type == "eniIp"` -/
  eniIp : Bool
  /-- `eni_id`, "" when the record does not have it -/
  eniID : String
  /-- `id` -/
  id : String
  deriving DecidableEq, Repr

/-- an attached interface: (id, MAC) -/
abbrev Attached := List (String × String)

/-- `strings.SplitN(id, ".", 2)[0]` -/
def idMac (id : String) : String := String.ofList (id.toList.takeWhile (· ≠ '.'))

/-- the item refers to an interface that is not attached any more -/
def stale (att : Attached) (it : Item) : Bool :=
  it.eniIp && (if it.eniID = "" then !(att.any fun e => e.2 == idMac it.id) else !(att.any fun e => e.1 == it.eniID))

/-- the inner loop of `filterENINotFound` over one record's items.
    `recheck = true`: `for j := 0; j < len(items); j++` (the bound is read again after every removal);
    `recheck = false`: the bound is fixed when the loop starts (`for j := range items`).
    `none` = `items[j]` with `j` out of range. -/
def loop (recheck : Bool) (att : Attached) : Nat → Nat → Nat → List Item → Option (List Item)
  | 0, _, _, rs => some rs
  | fuel + 1, bound, j, rs =>
    if j < (if recheck then rs.length else bound) then
      match rs[j]? with
      | none => none
      | some it => if stale att it then loop recheck att fuel bound (j + 1) (rs.eraseIdx j)
                   else loop recheck att fuel bound (j + 1) rs
    else some rs

def filterWith (recheck : Bool) (att : Attached) (rs : List Item) : Option (List Item) :=
  loop recheck att (rs.length + 1) rs.length 0 rs

/-- the filter as the code has it now: the loop shape is read from the source on every run
    (`Gen.filterRechecksLen`, 1 iff the loop condition is `j < len(podResources[i].Resources)`) -/
def filter (att : Attached) (rs : List Item) : Option (List Item) :=
  filterWith (Gen.filterRechecksLen == 1) att rs

end Terway.Stored
