/-!
# The daemon's wait for a PodENI record (`pkg/eni/remote.go`, `(*Remote).Allocate`)

A CNI ADD of a PodENI pod polls the pod's record with `wait.ExponentialBackoffWithContext` under the back-off
`wait_podeni_status`, which `eni_conf`'s `backoff_override` replaces (`backoff.OverrideBackoff`): `steps` is ConfigMap content and may
be 0 (or left out).  One look at the record either hands it over, fails for good, or asks for another look; the record does not
change during the wait (what does change it is the PodENI world's business, C10).  The context's deadline is not modelled: it
is longer than the configured wait.
-/
namespace Terway.Remote

/-- the record as the daemon finds it: good, or good but for one thing -/
inductive Rec where
  | absent | deleting | notBind | otherUid | otherTrunk | noAlloc | good
  deriving DecidableEq, Repr

inductive Look where
  | again | fail | done
  deriving DecidableEq, Repr

/-- one evaluation of the wait condition, in the order of the code: read, deletion mark, phase, pod instance, trunk (only a
daemon that has a trunk interface checks it), allocations -/
def look (trunk : Bool) : Rec → Look
  | .absent | .deleting | .notBind | .otherUid => .again
  | .otherTrunk => if trunk then .fail else .done
  | .noAlloc => .fail
  | .good => .done

/-- what the caller of `Allocate` receives -/
inductive Reply where
  | ok | notReady | timeout
  deriving DecidableEq, Repr

/-- `ExponentialBackoffWithContext` with `steps` evaluations left -/
def poll (trunk : Bool) (r : Rec) : Nat → Reply
  | 0 => .timeout
  | n + 1 =>
    match look trunk r with
    | .done => .ok
    | .fail => .notReady
    | .again => poll trunk r n

end Terway.Remote
