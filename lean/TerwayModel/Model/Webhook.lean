/-
Model of the pod admission webhook's decision logic (C18): `pkg/controller/webhook/mutating.go:podWebhook`
with `matchOnePodNetworking`, `getPodNetworkRequests`, `setResourceRequest`, `setNodeAffinityByZones`.
Label selectors are evaluated by the Kubernetes selector library; the model takes their verdicts as inputs.
-/
namespace Terway.Webhook

structure Net where
  iface : String
  vsw : List String
  sgs : List String
  /-- `allocationType`: `none` = unset, `some true` = Fixed, `some false` = Elastic -/
  fixed : Option Bool
  /-- `eniOptions.eniType == ENI` -/
  attachENI : Bool
  deriving DecidableEq, Repr

structure PN where
  name : String
  ready : Bool
  fixed : Bool
  /-- pod selector: absent, or present with the library's verdict for this pod -/
  podSel : Option Bool
  nsSel : Option Bool
  vsw : List String
  sgs : List String
  attachENI : Bool
  /-- zones of `status.vSwitches` -/
  zones : List String
  deriving Repr

structure Req where
  network : String
  iface : String
  deriving Repr

structure Pod where
  hostNetwork : Bool
  containers : Nat
  ignored : Bool
  hasNetworks : Bool
  hasRequest : Bool
  hasPN : Bool
  fixedName : Bool
  daemonSet : Bool
  useENI : Bool
  deriving Repr

structure Input where
  pod : Pod
  /-- pod-networks annotation parsed; `none` = unparsable -/
  annoNets : Option (List Net)
  /-- pod-networks-request annotation parsed; `none` = unparsable -/
  reqs : Option (List Req)
  /-- all PodNetworking objects, in list order -/
  pns : List PN
  nsExists : Bool
  prevZone : Option String
  ipamCRD : Bool
  inject : Bool
  enableTrunk : Bool
  /-- cluster eni-config: vSwitch ids and security groups; `none` = cannot be read -/
  cluster : Option (List String × List String)
  /-- the pod template's first container already declares both device resources (`aliyun/eni`, `aliyun/member-eni`)
      with this quantity, as request and as limit -/
  pre : Option Nat := none
  deriving Repr

inductive Resp where
  | allowed
  | denied (why : String)
  | errored
  | patched (nets : List Net) (pnAnno : Option String) (res : Option (String × Nat)) (zoneTerms : List (List String))
  deriving Repr

def pnToNet (p : PN) : Net :=
  { iface := "eth0", vsw := p.vsw, sgs := p.sgs, fixed := some p.fixed, attachENI := p.attachENI }

def inter (a b : List String) : List String := a.filter (· ∈ b)

/-- `getPodNetworkRequests`: every referenced network must exist, be ready and have no selector;
    zones = intersection over the requested networks -/
def requests (pns : List PN) : List Req → Nat → Except String (List Net × List String)
  | [], _ => .ok ([], [])
  | r :: rest, idx =>
    match pns.find? (·.name = r.network) with
    | none => .error "notfound"
    | some p =>
      if !p.ready then .error "notready"
      else if p.podSel.isSome || p.nsSel.isSome then .error "selector"
      else
        match requests pns rest (idx + 1) with
        | .error e => .error e
        | .ok (nets, zones) =>
          let n := pnToNet p
          let n' := if r.iface ≠ "" then { n with iface := r.iface } else n
          .ok (n' :: nets, if rest.isEmpty then p.zones else inter p.zones zones)

/-- `matchOnePodNetworking`: the first ready definition whose present selectors all match (at least one present) -/
def matchOne (fixedName : Bool) : List PN → Option PN
  | [] => none
  | p :: rest =>
    if !p.ready then matchOne fixedName rest
    else if !fixedName && p.fixed then matchOne fixedName rest
    else if p.podSel = some false then matchOne fixedName rest
    else if p.nsSel = some false then matchOne fixedName rest
    else if p.podSel.isSome || p.nsSel.isSome then some p
    else matchOne fixedName rest

inductive VErr where
  | tooManySG | ifaceLen | dupIface | fixedNeedsStableName
  deriving DecidableEq, Repr

/-- the validate-and-default loop; returns the defaulted list, whether defaults are required, and
    whether some entry is Fixed -/
def validate (fixedName : Bool) : List Net → List String → Except VErr (List Net × Bool × Bool)
  | [], _ => .ok ([], false, false)
  | n :: rest, seen =>
    if n.sgs.length > 10 then .error .tooManySG
    else if n.iface.utf8ByteSize = 0 ∨ n.iface.utf8ByteSize ≥ 6 then .error .ifaceLen
    else if n.iface ∈ seen then .error .dupIface
    else
      let isFixed := n.fixed = some true
      if isFixed ∧ !fixedName then .error .fixedNeedsStableName
      else
        match validate fixedName rest (n.iface :: seen) with
        | .error e => .error e
        | .ok (ns, req, anyFixed) =>
          .ok ({ n with fixed := some isFixed } :: ns, req || n.vsw.isEmpty || n.sgs.isEmpty, anyFixed || isFixed)

/-- fill `eth0` from the cluster configuration ("for now only fill eth0") -/
def fillDefaults (cl : List String × List String) (nets : List Net) : List Net :=
  nets.map fun n =>
    if n.iface = "eth0" then
      { n with vsw := if n.vsw.isEmpty then cl.1 else n.vsw, sgs := if n.sgs.isEmpty then cl.2 else n.sgs }
    else n

def resourceOf (inp : Input) (nets : List Net) : Option (String × Nat) :=
  if !inp.inject || nets.isEmpty then none
  else
    let name := if inp.enableTrunk then (if nets.any (·.attachENI) then "eni" else "member-eni") else "eni"
    some (name, nets.length)

/-- the device resources of the first container after admission: what the template declared, with the injected
    request written over it (`setResourceRequest` assigns, it never keeps a declared quantity) -/
def finalResources (pre : Option Nat) (res : Option (String × Nat)) : List (String × Nat) :=
  match res with
  | none => (match pre with | none => [] | some q => [("eni", q), ("member-eni", q)])
  | some (n, k) => (match pre with | none => [] | some q => [("eni", q), ("member-eni", q)]).filter (fun e => e.1 != n) ++ [(n, k)]

/-- `setNodeAffinityByZones(pod, prevZone, vSwitchZone)`: one `In` term per non-empty zone list, none for DaemonSet pods -/
def zoneTerms (inp : Input) (prev vsz : List String) : List (List String) :=
  if inp.pod.daemonSet then [] else [prev, vsz].filter (!·.isEmpty)

/-- the early exits: pods that are not the webhook's business, and conflicting annotations -/
def gate (p : Pod) : Option Resp :=
  if p.hostNetwork then some .allowed
  else if p.containers = 0 then some .allowed
  else if p.ignored then some .allowed
  else if (p.hasNetworks && p.hasRequest) || (p.hasNetworks && p.hasPN) || (p.hasRequest && p.hasPN) then some (.denied "exclusive")
  else none

/-- where the networks come from: annotation, network requests, a matching PodNetworking, or the default `eth0` -/
def source (inp : Input) : Except Resp (List Net × Option String × List String) :=
  match inp.annoNets with
  | none => .error (.denied "parse-networks")
  | some fromAnno =>
    if !fromAnno.isEmpty then .ok (fromAnno, none, [])
    else
      match inp.reqs with
      | none => .error (.denied "parse-request")
      | some rs =>
        match requests inp.pns rs 0 with
        | .error _ => .error (.denied "parse-request")
        | .ok (nets, zones) =>
          if !nets.isEmpty then .ok (nets, none, zones)
          else if !inp.pns.isEmpty && !inp.nsExists then .error .errored
          else
            match matchOne inp.pod.fixedName inp.pns with
            | some pn => .ok ([pnToNet pn], some pn.name, pn.zones)
            | none =>
              if !inp.ipamCRD && !inp.pod.useENI then .error .allowed
              else .ok ([{ iface := "eth0", vsw := [], sgs := [], fixed := none, attachENI := false }], none, [])

def prevZones (inp : Input) (anyFixed : Bool) : List String :=
  if anyFixed then (match inp.prevZone with | some z => if z = "" then [] else [z] | none => []) else []

/-- validation, defaulting and the patch -/
def finish (inp : Input) (nets : List Net) (pnAnno : Option String) (vsz : List String) : Resp :=
  match validate inp.pod.fixedName nets [] with
  | .error .tooManySG => .denied "sg>10"
  | .error .ifaceLen => .denied "iface-len"
  | .error .dupIface => .denied "dup-iface"
  | .error .fixedNeedsStableName => .denied "fixed-name"
  | .ok (nets', require, anyFixed) =>
    if require then
      match inp.cluster with
      | none => .errored
      | some cl => .patched (fillDefaults cl nets') pnAnno (resourceOf inp (fillDefaults cl nets')) (zoneTerms inp (prevZones inp anyFixed) vsz)
    else .patched nets' pnAnno (resourceOf inp nets') (zoneTerms inp (prevZones inp anyFixed) vsz)

def admitPod (inp : Input) : Resp :=
  match gate inp.pod with
  | some r => r
  | none =>
    match source inp with
    | .error r => r
    | .ok (nets, pnAnno, vsz) => finish inp nets pnAnno vsz

end Terway.Webhook
