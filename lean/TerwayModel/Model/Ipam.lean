/-
Model of the cluster IPAM record functions (C02, C03, C08): pkg/controller/multi-ip/node/pool.go, eni.go.

The per-node record (Node CR `status.networkInterfaces`) is a list of interfaces, each with its IPv4/IPv6
entries `{ip, status, podID, podUID, primary}`.  The functions that transform it iterate Go maps, so which
address a pod gets or which idle address is trimmed is not determined; the model therefore gives, for every
function, the *relation* between the record before and after (`…OK pre post`), deterministic where the code is
(release, the per-interface plan given the interface order) and quantified over the choices where it is not.
Addresses are numbers; IPv6 addresses are the numbers `≥ v6Base`.
-/
namespace Terway.Ipam

def v6Base : Nat := 1000000

inductive IPStatus where
  | valid | deleting
  deriving DecidableEq, Repr

structure Entry where
  ip : Nat
  status : IPStatus
  /-- `""` = bound to nobody -/
  pod : String
  uid : String
  primary : Bool
  deriving DecidableEq, Repr

def Entry.six (e : Entry) : Bool := decide (v6Base ≤ e.ip)

inductive EniStatus where
  | inUse | deleting | other
  deriving DecidableEq, Repr

inductive EniType where
  | secondary | trunk
  deriving DecidableEq, Repr

structure Eni where
  id : String
  status : EniStatus
  typ : EniType
  /-- `NetworkInterfaceTrafficMode == HighPerformance` (an RDMA interface) -/
  hp : Bool
  ips : List Entry
  deriving DecidableEq, Repr

def Eni.fam (e : Eni) (six : Bool) : List Entry := e.ips.filter (·.six == six)

structure Pod where
  id : String
  uid : String
  need4 : Bool
  need6 : Bool
  erdma : Bool
  /-- the address the pod object already reports (take-over) -/
  ip4 : Option Nat
  ip6 : Option Nat
  deriving DecidableEq, Repr

abbrev Record := List Eni

def entries (r : Record) : List (Eni × Entry) := r.flatMap fun e => e.ips.map fun x => (e, x)

def podOf (pods : List Pod) (id : String) : Option Pod := pods.find? (·.id == id)

/-! ### releasePodNotFound -/

/-- what the node agent's NodeRuntime says about a pod UID: `none` = no entry, `some d` = the latest status is
    `deleted` (`d = true`) or something else -/
abbrev Runtime := String → Option Bool

def releaseEntry (pods : List Pod) (rt : Runtime) (x : Entry) : Entry :=
  if x.pod = "" then x
  else match podOf pods x.pod with
    | some p => { x with uid := p.uid }            -- the pod exists: (re)stamp its UID
    | none =>
      if x.uid ≠ "" then
        match rt x.uid with
        | some true => { x with pod := "", uid := "" }   -- gone, and the node agent confirmed the teardown
        | _ => x                                          -- gone, teardown not confirmed: keep
      else { x with pod := "", uid := "" }               -- legacy binding without UID: nothing to wait for

/-- `releasePodNotFound`; `rt = none`: the NodeRuntime object could not be read, nothing is released -/
def release (pods : List Pod) (rt : Option Runtime) (r : Record) : Record :=
  match rt with
  | none => r
  | some f => r.map fun e => { e with ips := e.ips.map (releaseEntry pods f) }

/-! ### assignIPFromLocalPool (relation) -/

/-- the entries bound to pod `p` in family `six` -/
def boundTo (r : Record) (p : String) (six : Bool) : List (Eni × Entry) :=
  (entries r).filter fun ex => ex.2.pod == p && ex.2.six == six

def Pod.needs (p : Pod) (six : Bool) : Bool := if six then p.need6 else p.need4
def Pod.reported (p : Pod) (six : Bool) : Option Nat := if six then p.ip6 else p.ip4

/-- may `x` on `e` be freely chosen for pod `p` (the pod reports no address of that family) -/
def eligible (erdmaOn : Bool) (p : Pod) (e : Eni) (x : Entry) : Bool :=
  e.status == .inUse && x.status == .valid && x.pod == "" &&
  (if p.erdma then e.hp else !(erdmaOn && e.hp))

/-- an IPv6 address is only chosen on the interface of the pod's IPv4 binding, when it has one (with a
    malformed record binding it twice: of one of them) -/
def v6Follows (r : Record) (p : Pod) (e : Eni) : Bool :=
  (boundTo r p.id false).isEmpty || (boundTo r p.id false).any (·.1.id == e.id)

/-- is the change of one entry something `assignIPFromLocalPool` may do?  (An IPv4 address chosen in the pass
    and rolled back because no IPv6 address was found leaves no trace; a binding that existed before the pass
    is never undone.) -/
def entryChangeOK (erdmaOn : Bool) (pods : List Pod) (pre post : Record) (e : Eni) (x y : Entry) : Bool :=
  x.ip == y.ip && x.status == y.status && x.primary == y.primary &&
  (if x.pod == y.pod then x.uid == y.uid
   else if x.pod == "" then
     -- a new binding
     match podOf pods y.pod with
     | none => false
     | some p =>
       y.uid == p.uid && p.needs x.six && (boundTo pre p.id x.six).isEmpty &&
       (match p.reported x.six with
        | some ip => ip == x.ip                                   -- take-over: exactly the reported address
        | none =>
          eligible erdmaOn p e x &&
          -- IPv6 follows the interface of the pod's IPv4 address
          (!x.six || v6Follows post p e))
   else false)

def zipOK (f : Eni → Entry → Entry → Bool) (pre post : Record) : Bool :=
  pre.length == post.length &&
  (pre.zip post).all fun (a, b) =>
    a.id == b.id && a.status == b.status && a.typ == b.typ && a.hp == b.hp && a.ips.length == b.ips.length &&
    (a.ips.zip b.ips).all fun (x, y) => f a x y

/-- a pod is satisfied when every family it needs is bound -/
def satisfied (r : Record) (p : Pod) : Bool :=
  (!p.need4 || !(boundTo r p.id false).isEmpty) && (!p.need6 || !(boundTo r p.id true).isEmpty)

/-- the relation: entry-wise allowed changes; at most one new binding per pod and family; and — in single stack,
    where there is no roll-back — a pod without reported address stays unsatisfied only when no eligible address
    is left -/
def assignOK (erdmaOn : Bool) (pods : List Pod) (pre post : Record) : Bool :=
  zipOK (entryChangeOK erdmaOn pods pre post) pre post &&
  pods.all (fun p => [false, true].all fun six =>
    ((boundTo post p.id six).length ≤ max 1 (boundTo pre p.id six).length)) &&
  pods.all (fun p =>
    satisfied post p || p.need4 && p.need6 || (p.reported (!p.need4)).isSome ||
    !((entries post).any fun ex => ex.2.six == !p.need4 && eligible erdmaOn p ex.1 ex.2 &&
        (!ex.2.six || (boundTo post p.id false).all (·.1.id == ex.1.id))))

/-! ### the per-interface plan (getEniOptions + assignEniWithOptions) -/

structure NodeCfg where
  en4 : Bool
  en6 : Bool
  erdma : Bool
  trunk : Bool
  cap4 : Nat     -- NodeCap.IPv4PerAdapter
  cap6 : Nat
  batch : Nat
  minPool : Nat
  maxPool : Nat
  /-- flavor: how many interfaces of each kind the node may have -/
  nSecondary : Nat
  nTrunk : Nat
  nRdma : Nat
  deriving DecidableEq, Repr

inductive Kind where
  | secondary | trunk | rdma
  deriving DecidableEq, Repr

def Eni.kind (e : Eni) : Kind := if e.typ == .trunk then .trunk else if e.hp then .rdma else .secondary

structure Option_ where
  /-- `none` = a slot for a new interface -/
  eni : Option Eni
  kind : Kind
  add4 : Nat := 0
  add6 : Nat := 0
  full : Bool := false
  deriving DecidableEq, Repr

def allocatable (l : List Entry) : Nat := (l.filter fun x => x.status == .valid && x.pod == "").length

/-- the sort key of `sortNetworkInterface`: trunk first, then RDMA, then by number of addresses (descending) -/
def sortBefore (c : NodeCfg) (a b : Eni) : Bool :=
  let la := if c.en4 then (a.fam false).length else (a.fam true).length
  let lb := if c.en4 then (b.fam false).length else (b.fam true).length
  if a.typ == .trunk && b.typ != .trunk then true
  else if a.typ != .trunk && b.typ == .trunk then false
  else if a.hp && !b.hp then true
  else if !a.hp && b.hp then false
  else decide (lb ≤ la)

def sortedOK (c : NodeCfg) : List Eni → Bool
  | [] => true
  | [_] => true
  | a :: b :: rest => sortBefore c a b && sortedOK c (b :: rest)

/-- `getEniOptions` for a given (valid) order of the existing interfaces -/
def eniOptions (c : NodeCfg) (sorted : List Eni) : List Option_ :=
  let total := c.nSecondary + c.nTrunk + c.nRdma
  let have_ := fun (k : Kind) => (sorted.filter (·.kind == k)).length
  let left := fun (k : Kind) (n : Nat) => (n : Int) - have_ k
  let newLimit := total - sorted.length
  let nTrunkNew := if c.trunk then min (left .trunk c.nTrunk).toNat newLimit else 0
  let newLimit2 := newLimit - nTrunkNew
  let nRdmaNew := if c.erdma then min (left .rdma c.nRdma).toNat newLimit2 else 0
  let head := List.replicate nTrunkNew ({ eni := none, kind := .trunk } : Option_) ++
              List.replicate nRdmaNew { eni := none, kind := .rdma } ++
              sorted.map fun e => { eni := some e, kind := e.kind }
  let toAdd := min ((total : Int) - head.length) (left .secondary c.nSecondary)
  head ++ List.replicate toAdd.toNat { eni := none, kind := .secondary }

/-- one family on an existing interface: `(addresses to add, interface full, demand left)` -/
def addStep (cap batch len alloc : Nat) (t : Int) : Nat × Bool × Int :=
  if t > 0 then
    let t1 := t - alloc
    if t1 > 0 then
      let leftQ := (cap : Int) - len
      if leftQ > 0 then
        let n := min (min leftQ t1) batch
        (n.toNat, false, t1 - n)
      else (0, true, t1)
    else (0, false, t1)
  else (0, false, t)

/-- one family on a new interface: `(addresses to create it with, demand left)` -/
def newStep (cap batch : Nat) (t : Int) : Nat × Int :=
  if t > 0 then
    let n := min (min (cap : Int) t) batch
    (n.toNat, t - n)
  else (0, t)

/-- one `assignEniWithOptions` pass: demand `t4` / `t6` addresses over the options of the given kinds, in order -/
def planPass (c : NodeCfg) (kinds : List Kind) : List Option_ → Int → Int → List Option_
  | [], _, _ => []
  | o :: rest, t4, t6 =>
    if !(kinds.contains o.kind) then o :: planPass c kinds rest t4 t6 else
    match o.eni with
    | some e =>
      if e.status != .inUse then o :: planPass c kinds rest t4 t6 else
      let s4 := addStep c.cap4 c.batch (e.fam false).length (allocatable (e.fam false)) t4
      let s6 := addStep c.cap6 c.batch (e.fam true).length (allocatable (e.fam true)) t6
      { o with add4 := if t4 > 0 ∧ s4.1 > 0 then s4.1 else o.add4,
               add6 := if t6 > 0 ∧ s6.1 > 0 then s6.1 else o.add6,
               full := o.full || s4.2.1 || s6.2.1 } :: planPass c kinds rest s4.2.2 s6.2.2
    | none =>
      -- a new interface; a trunk interface is created even without demand
      let t4a := if o.kind == .trunk && t4 ≤ 0 then 1 else t4
      let t6a := if o.kind == .trunk && c.en6 && t6 ≤ 0 then 1 else t6
      let s4 := newStep c.cap4 c.batch t4a
      let s6 := newStep c.cap6 c.batch t6a
      { o with add4 := if t4a > 0 then s4.1 else o.add4, add6 := if t6a > 0 then s6.1 else o.add6 } ::
        planPass c kinds rest s4.2 s6.2

/-- `addIP`'s planning: normal pods (plus the minimum reserve) on secondary/trunk interfaces, RDMA pods on RDMA ones -/
def plan (c : NodeCfg) (sorted : List Eni) (normal rdma : Nat) : List Option_ :=
  let o0 := eniOptions c sorted
  let d := fun (n : Nat) (en : Bool) => if en then (n : Int) else 0
  let o1 := planPass c [.secondary, .trunk] o0 (d (normal + c.minPool) c.en4) (d (normal + c.minPool) c.en6)
  planPass c [.rdma] o1 (d rdma c.en4) (d rdma c.en6)

/-! ### adjustPool / releaseUnUsedIP (relation) -/

def idleValid (l : List Entry) : Nat := (l.filter fun x => x.pod == "" && x.status == .valid).length
def inUseN (l : List Entry) : Nat := (l.filter (·.pod != "")).length

/-- how many idle addresses the pool has beyond `maxPool` (first enabled family, interfaces in use) -/
def surplus (c : NodeCfg) (r : Record) : Int :=
  ((r.filter (·.status == .inUse)).map fun e => idleValid (e.fam (!c.en4))).sum - c.maxPool

/-- `releaseUnUsedIP` gives the whole interface up: nothing on it is bound, it is smaller than the surplus, and it
    is an ordinary secondary interface -/
def trimWhole (a : Eni) (toDel : Int) : Bool :=
  inUseN a.ips == 0 && decide (((a.fam false).length : Int) < toDel) && decide (((a.fam true).length : Int) < toDel) &&
  a.typ == .secondary && !a.hp

/-- entries change only from valid to deleting, only when bound to nobody and not primary -/
def trimEntriesOK (a b : Eni) : Bool :=
  (a.ips.zip b.ips).all fun xy =>
    xy.1.ip == xy.2.ip && xy.1.pod == xy.2.pod && xy.1.uid == xy.2.uid && xy.1.primary == xy.2.primary &&
    (xy.1.status == xy.2.status || (xy.1.status == .valid && xy.2.status == .deleting && xy.1.pod == "" && !xy.1.primary))

def trimMarked (a b : Eni) (six : Bool) : Nat :=
  ((a.ips.zip b.ips).filter fun xy => xy.1.six == six && xy.1.status != xy.2.status).length

/-- how many addresses of a family `releaseUnUsedIP` marks: the surplus balanced over both families, limited to the
    unbound, non-primary, valid ones -/
def trimExpect (a : Eni) (toDel : Int) (six : Bool) : Nat :=
  let idle4 := (idleValid (a.fam false) : Int)
  let idle6 := (idleValid (a.fam true) : Int)
  let leftover := max idle4 idle6 - toDel
  let want := (if six then idle6 else idle4) - leftover
  let cand := ((a.fam six).filter fun x => x.pod == "" && !x.primary && x.status == .valid).length
  min (max want 0).toNat cand

/-- what `releaseUnUsedIP(eni, toDel)` may turn `a` into, and what it returns -/
def trimEniOK (a b : Eni) (toDel : Int) : Option Int :=
  if a.id != b.id || a.typ != b.typ || a.hp != b.hp || a.ips.length != b.ips.length then none
  else if trimWhole a toDel then
    (if b.status == .deleting && a.ips == b.ips then some (max (a.fam false).length (a.fam true).length : Nat) else none)
  else if a.status != b.status then none
  else if trimEntriesOK a b && trimMarked a b false == trimExpect a toDel false && trimMarked a b true == trimExpect a toDel true
    then some (max (trimMarked a b false) (trimMarked a b true) : Nat)
  else none

/-- the loop of `adjustPool` over the interfaces in reverse sort order -/
def trimLoop : List (Eni × Eni) → Int → Bool
  | [], _ => true
  | (a, b) :: rest, toDel =>
    if toDel ≤ 0 then a == b && trimLoop rest toDel
    else match trimEniOK a b toDel with
      | none => false
      | some n => trimLoop rest (toDel - n)

/-! ## which pods take part, and what each needs (pool.go `getPods`) -/

structure RawPod where
  name : String
  hostNetwork : Bool
  useENI : Bool
  exited : Bool
  /-- some init container / some container has a non-zero `aliyun/erdma` limit -/
  erdmaInit : Bool
  erdmaMain : Bool
  deriving DecidableEq, Repr

/-- the request built for one pod: it depends on that pod and the node's switches only -/
def classify (en4 en6 erdmaOn : Bool) (p : RawPod) : Option (String × Bool × Bool × Bool) :=
  if p.hostNetwork || p.useENI || p.exited then none
  else some (p.name, en4, en6, erdmaOn && (p.erdmaInit || p.erdmaMain))

def getPods (en4 en6 erdmaOn : Bool) (pods : List RawPod) : List (String × Bool × Bool × Bool) :=
  pods.filterMap (classify en4 en6 erdmaOn)

/-! ## full synchronisation: merging what the cloud reports into the record (eni.go `mergeIPMap`) -/

/-- `mergeIPMap(remote, current)` for one interface and one family: addresses the cloud no longer reports are
    dropped from the record, addresses only the cloud knows are entered as the cloud reports them (valid, or
    `Deleting` for an address the cloud reports as not available), and an address known to both sides keeps its
    recorded entry untouched — status and binding.  (A family the record has no address of is a nil map in Go: the
    function allocates one and returns it, and the caller stores it back — since fix 7563783; before, the additions
    were lost.) -/
def mergeEntries (remote current : List Entry) : List Entry :=
  current.filter (fun x => remote.any (·.ip == x.ip)) ++ remote.filter (fun r => !(current.any (·.ip == r.ip)))

end Terway.Ipam
