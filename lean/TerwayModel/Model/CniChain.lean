import TerwayModel.Model.Json
/-
Model of `cmd/terway-cli/cni.go:mergeConfigList` with the decisions of `cni_linux.go`
(`allowEBPFNetworkPolicy`, `switchDataPathV2` as an input) — C20, second half.
-/
namespace Terway.CniChain
open Terway.Json

structure Env where
  ebpf : Bool
  edt : Bool
  /-- `feature.EnableNetworkPolicy` -/
  policy : Bool
  /-- result of `_switchDataPathV2()` (feature gate, recorded datapath, link probe) -/
  switchV2 : Bool
  /-- recorded capability `has_cilium_chainer`: `some true/false`, or absent -/
  prevCilium : Option Bool
  /-- a link named `cilium_net` exists -/
  ciliumLink : Bool
  deriving Repr

/-- `allowEBPFNetworkPolicy(require)` -/
def allowEBPF (env : Env) : Bool :=
  match env.prevCilium with
  | some b => b
  | none => if env.ciliumLink then true else env.policy

structure Acc where
  require : Bool := false
  exist : Bool := false
  datapath : String := ""
  edt : Bool
  npp : String := "iptables"
  out : List Json := []      -- plugins appended so far (in order)
  deriving Repr

def strOf : Option Json → Option String
  | some (.str s) => some s
  | _ => none

def lower (s : String) : String := String.ofList (s.toList.map fun c => if 'A' ≤ c ∧ c ≤ 'Z' then Char.ofNat (c.toNat + 32) else c)

/-- datapath chosen for a terway plugin when eBPF is available; `none` keeps the previous value -/
def chooseDatapath (env : Env) (npp vtype : String) : Option String :=
  let v := lower vtype
  if v = "veth" ∨ v = "" then
    some (if npp = "ebpf" ∧ allowEBPF env then "datapathv2" else "veth")
  else if v = "ipvlan" then some (if env.switchV2 then "datapathv2" else "ipvlan")
  else if v = "datapathv2" then some "datapathv2"
  else none

inductive Err where
  | typeNotFound | nppType | invalidDatapath
  deriving Repr, DecidableEq

/-- `network_policy_provider` of a terway plugin: must be a string when present, else the value seen so far -/
def nppOf (acc : Acc) (kvs : Kvs) : Except Err String :=
  match lookup kvs "network_policy_provider" with
  | none => .ok acc.npp
  | some (.str s) => .ok s
  | some _ => .error .nppType

/-- the `case pluginTypeTerway` branch -/
def stepTerway (env : Env) (acc : Acc) (kvs : Kvs) (npp : String) : Except Err Acc :=
  let vtype := (strOf (lookup kvs "eniip_virtual_type")).getD "veth"
  if env.ebpf = false then
    .ok { acc with npp := npp, out := acc.out ++ [.obj (erase kvs "eniip_virtual_type")] }
  else
    let dp := (chooseDatapath env npp vtype).getD acc.datapath
    if dp = "veth" then
      let kvs1 := put kvs "eniip_virtual_type" (.str "veth")
      let kvs2 := put kvs1 "bandwidth_mode" (.str "tc")
      .ok { acc with npp := npp, datapath := dp, require := false, edt := false, out := acc.out ++ [.obj kvs2] }
    else if dp = "ipvlan" ∨ dp = "datapathv2" then
      let kvs1 := put kvs "eniip_virtual_type" (.str dp)
      let kvs2 := put kvs1 "bandwidth_mode" (.str (if acc.edt then "edt" else "tc"))
      .ok { acc with npp := npp, datapath := dp, require := true, out := acc.out ++ [.obj kvs2] }
    else .error .invalidDatapath

/-- one iteration of the loop over the input plugins -/
def stepPlugin (env : Env) (acc : Acc) (plugin : Json) : Except Err Acc :=
  match plugin with
  | .obj kvs0 =>
    let kvs := erase (erase kvs0 "cniVersion") "name"
    match strOf (lookup kvs "type") with
    | none => .error .typeNotFound
    | some ty =>
      if ty = "cilium-cni" then
        if env.ebpf = false then .ok acc                    -- dropped: `continue`
        else
          let kvs' := put kvs "datapath" (.str acc.datapath)
          .ok { acc with require := true, exist := true, out := acc.out ++ [.obj kvs'] }
      else if ty = "terway" then
        match nppOf acc kvs with
        | .error e => .error e
        | .ok npp => stepTerway env acc kvs npp
      else .ok { acc with out := acc.out ++ [.obj kvs] }
  | _ => .error .typeNotFound

def runPlugins (env : Env) : Acc → List Json → Except Err Acc
  | acc, [] => .ok acc
  | acc, p :: ps =>
    match stepPlugin env acc p with
    | .error e => .error e
    | .ok acc' => runPlugins env acc' ps

def chainer (datapath : String) : Json :=
  .obj [("type", .str "cilium-cni"), ("enable-debug", .bool false), ("log-file", .str "/var/run/cilium/cilium-cni.log"),
        ("data-path", .str datapath)]

/-- the generated plugin list (the value of `plugins` in the output document) -/
def mergeConfigList (env : Env) (configs : List Json) : Except Err (List Json) :=
  match runPlugins env { edt := env.edt } configs with
  | .error e => .error e
  | .ok acc =>
    .ok (if env.ebpf ∧ acc.require ∧ !acc.exist then acc.out ++ [chainer acc.datapath] else acc.out)

/-! ### the file at `--output`

`processInput` ends with `os.WriteFile(outPutPath, out, 0644)`: the file is opened with `O_TRUNC`, so what a reader gets afterwards
is the new document and nothing of what an earlier run left there.  `overwrite` is what a write at offset 0 without truncation
would leave (the tail of a longer old file survives); it is here only to say what `writeFile` is not. -/

def writeFile (_old new : List UInt8) : List UInt8 := new

def overwrite (old new : List UInt8) : List UInt8 := new ++ old.drop new.length

/-- one run of `terway-cli cni` up to the file: the rendering of the generated list replaces the file; on an error the file is
left as it was -/
def generate (render : List Json → List UInt8) (env : Env) (configs : List Json) (old : List UInt8) : Except Err (List UInt8) :=
  match mergeConfigList env configs with
  | .error e => .error e
  | .ok out => .ok (writeFile old (render out))

end Terway.CniChain
