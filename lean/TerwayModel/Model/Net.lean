import TerwayModel.Model.Sha1
import TerwayModel.Generated.Consts
/-
Model of the pure address arithmetic behind C14:
  pkg/tc/u32.go            U32IPv4Src / U32IPv6Src / U32MatchSrc
  plugin/datapath/ipvlan_linux.go  dstIPRule
  pkg/ip/ip_cilium.go      GetIPAtIndex  (+ pkg/ip/ip.go DeriveGatewayIP)
  plugin/driver/utils      GetRouteTableID
  pkg/link/veth.go         VethNameForPod
-/
namespace Terway.Net

/-- u32 classifier key as in `netlink.TcU32Key` -/
structure Key where
  off  : Nat
  mask : BitVec 32
  val  : BitVec 32
  deriving DecidableEq, Repr

/-- `net.CIDRMask(n, 32)` as a word: the top `n` bits set -/
def mask32 (n : Nat) : BitVec 32 := BitVec.allOnes 32 <<< (32 - n)

/-- `U32IPv4Src`: mask word, masked address, offset of the source address in the IPv4 header -/
def u32v4Src (ip : BitVec 32) (n : Nat) : Key :=
  { off := Gen.u32SrcOff4, mask := mask32 n, val := ip &&& mask32 n }

/-- `dstIPRule`: same key at the offset of the destination address -/
def u32v4Dst (ip : BitVec 32) (n : Nat) : Key :=
  { off := Gen.u32DstOff4, mask := mask32 n, val := ip &&& mask32 n }

/-- `redirectRule.isMatch` on a filter found installed for another CIDR (same link, protocol and actions): it is kept as the
one implementing `ip/n` exactly when its key is the key `ip/n` would get -/
def keepsInstalled (ip : BitVec 32) (n : Nat) (ip' : BitVec 32) (n' : Nat) : Bool := decide (u32v4Dst ip' n' = u32v4Dst ip n)

/-- IPv6 address as four big-endian words, most significant first -/
abbrev Addr6 := List (BitVec 32)

/-- prefix length falling into word `i` of an n-bit prefix -/
def wordPrefix (n i : Nat) : Nat := min 32 (n - 32 * i)

/-- `U32IPv6Src`: the loop `for i := 0; i < 4; i++`, one key per word whose mask is non-zero -/
def u32v6Src (ip : Addr6) (n : Nat) : List Key :=
  (List.range 4).filterMap fun i =>
    let m := mask32 (wordPrefix n i)
    if m ≠ 0#32 then
      some { off := Gen.u32SrcOff6Base + Gen.u32SrcOff6Step * i, mask := m, val := ip.getD i 0#32 &&& m }
    else none

/-- how the kernel's u32 classifier evaluates one key on the 32-bit word found at its offset -/
def Key.matches (k : Key) (word : BitVec 32) : Bool := word &&& k.mask == k.val

/-! gateway: `GetIPAtIndex(ipNet, -3)` over an address family of `w` bits -/

/-- first address of the subnet of `addr/n` -/
def subnetFirst (w addr n : Nat) : Nat := addr / 2 ^ (w - n) * 2 ^ (w - n)
/-- last address of the subnet of `addr/n` -/
def subnetLast (w addr n : Nat) : Nat := subnetFirst w addr n + 2 ^ (w - n) - 1

/-- `GetIPAtIndex(ipNet, idx)` for negative `idx` (counted from the last address, −1 = last):
    `Last + (idx+1)` if that is still inside the subnet -/
def ipAtNegIndex (w addr n : Nat) (back : Nat) : Option Nat :=
  let first := subnetFirst w addr n
  let last := subnetLast w addr n
  if first + back ≤ last then some (last - back) else none

/-- `DeriveGatewayIP`: index −3, i.e. two below the last address -/
def deriveGateway (w addr n : Nat) : Option Nat :=
  ipAtNegIndex w addr n (Int.toNat (-(Gen.gatewayIndex + 1)))

/-- `GetRouteTableID` -/
def tableID (linkIndex : Nat) : Nat := Gen.routeTableBase + linkIndex

/-! host-side veth name -/

def eth0 : List UInt8 := "eth0".toUTF8.toList

def normIf (ifName : List UInt8) : List UInt8 := if ifName = eth0 then [] else ifName

/-- the string that is hashed: `namespace + "." + name + ifName` -/
def vethPreimage (ns name ifName : List UInt8) : List UInt8 :=
  ns ++ [46] ++ name ++ normIf ifName

def vethName (pfx : List Char) (ns name ifName : List UInt8) : List Char :=
  pfx ++ (Sha1.hex (Sha1.sum (vethPreimage ns name ifName))).take Gen.vethHashLen

end Terway.Net
