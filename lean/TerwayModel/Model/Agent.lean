/-
The node agent's side of the release gate (C03, third sentence): what the daemon writes into the NodeRuntime
object, from which the control plane reads "the pod's teardown is confirmed".

  pkg/eni/crdv2.go   Release            a processed CNI DEL is remembered per pod UID (`deletedPods`)
                     syncNodeRuntime    … and reported: `deleted` is stamped for every remembered UID
                     syncDeletedPods    removeDeleted (entries the IPAM record forgot and whose final status is
                                        deleted are dropped) + syncBack (UIDs the IPAM record names but the
                                        NodeRuntime lacks are entered as `initial`)
  daemon/daemon.go   cleanRuntimeNode   at the end of every GC pass: an entry that is not recorded locally, whose
                                        final status is an `initial` older than 30 s and whose pod id is ns/name gets
                                        `deleted` once the API server answered "no such pod on this node"

Stamps: every stamp the code writes is later than everything stored (the clock moves on), so the final status of
an entry is `deleted` as soon as it has a `deleted` stamp; `recent` says the `initial` stamp is younger than 30 s.
-/
namespace Terway.Agent

structure Entry where
  uid : Nat
  /-- the pod id has the form namespace/name -/
  okID : Bool
  /-- the `initial` stamp is younger than 30 s -/
  recent : Bool
  /-- a `deleted` stamp is present (then it is the final status) -/
  deleted : Bool
  deriving DecidableEq, Repr

inductive Verdict where
  | present | absent | failed
  deriving DecidableEq, Repr

structure St where
  /-- NodeRuntime.status.pods as stored in the API server -/
  rt : List Entry := []
  /-- CRDV2.deletedPods: processed DELs not reported yet (uid, pod id well-formed) -/
  pending : List (Nat × Bool) := []
  /-- ghost: UIDs whose CNI DEL the daemon processed -/
  dels : List Nat := []
  /-- ghost: UIDs for which the API server said "no such pod on this node" during a clean-up pass -/
  verified : List Nat := []
  deriving Repr

inductive Ev where
  /-- CRDV2.Release for a DEL the daemon processed -/
  | del (uid : Nat) (okID : Bool)
  /-- syncNodeRuntime; `ok = false`: reading or writing the NodeRuntime failed -/
  | sync (ok : Bool)
  /-- syncDeletedPods with the UIDs (and pod-id shapes) the node's IPAM record names; `ok = false`: a call failed -/
  | back (inUsed : List (Nat × Bool)) (ok : Bool)
  /-- cleanRuntimeNode: UIDs recorded locally, the API server's answer per UID; `ok = false`: the write failed -/
  | clean (localUIDs : List Nat) (verdict : Nat → Verdict) (ok : Bool)
  /-- 60 s pass: every `initial` stamp is now older than 30 s -/
  | age

def setDeleted (rt : List Entry) (uid : Nat) (okID : Bool) : List Entry :=
  if rt.any (·.uid == uid) then rt.map fun e => if e.uid = uid then { e with deleted := true } else e
  else rt ++ [{ uid := uid, okID := okID, recent := false, deleted := true }]

/-- removeDeleted, then syncBack -/
def backRt (rt : List Entry) (inUsed : List (Nat × Bool)) : List Entry :=
  let kept := rt.filter fun e => inUsed.any (·.1 == e.uid) || !e.deleted
  kept ++ ((inUsed.filter fun u => !(kept.any (·.uid == u.1))).map fun u =>
    ({ uid := u.1, okID := u.2, recent := true, deleted := false } : Entry))

/-- the entries a clean-up pass stamps -/
def cleanHits (localUIDs : List Nat) (verdict : Nat → Verdict) (e : Entry) : Bool :=
  !localUIDs.contains e.uid && !e.deleted && !e.recent && e.okID && verdict e.uid == .absent

def step (s : St) : Ev → St
  | .del uid okID =>
    { s with pending := if s.pending.any (·.1 == uid) then s.pending.map (fun p => if p.1 = uid then (uid, okID) else p) else s.pending ++ [(uid, okID)],
             dels := uid :: s.dels }
  | .sync ok =>
    if ok && !s.pending.isEmpty then { s with rt := s.pending.foldl (fun rt p => setDeleted rt p.1 p.2) s.rt, pending := [] } else s
  | .back inUsed ok => if ok then { s with rt := backRt s.rt inUsed } else s
  | .clean localUIDs verdict ok =>
    -- the API server is asked only for entries that pass the other tests
    let asked := s.rt.filter fun e => !localUIDs.contains e.uid && !e.deleted && !e.recent && e.okID
    let s' := { s with verified := (asked.filter fun e => verdict e.uid == .absent).map (·.uid) ++ s.verified }
    if ok then { s' with rt := s.rt.map fun e => if cleanHits localUIDs verdict e then { e with deleted := true } else e } else s'
  | .age => { s with rt := s.rt.map fun e => { e with recent := false } }

def run (s : St) : List Ev → St
  | [] => s
  | e :: es => run (step s e) es

end Terway.Agent
