import TerwayModel.Model.Net
/-
Model behind C12: what the daemon returns for an ADD and what the plugin makes of it.
  daemon/daemon.go        defaultForNetConf
  pkg/eni/remote.go       RemoteIPResource.ToRPC (PodENI, one NetConf per allocation)
  (pkg/eni/local.go LocalIPResource.ToRPC - a plain field copy with DefaultRoute = true - is NOT modelled here)
  plugin/terway/cni.go    parseSetupConf (address / gateway / route / limit recovery), getDatePath
Addresses are numbers; a CIDR string is `empty`, `bad` (unparsable) or `ok addr len`.
-/
namespace Terway.NetConf
open Terway.Net

/-! ## default route / primary interface -/

structure Entry where
  ifName : String
  defaultRoute : Bool
  deriving DecidableEq, Repr

def isDefaultIf (n : String) : Bool := n = "" ∨ n = "eth0"

inductive DErr where
  | dupDefault | noDefaultIf
  deriving DecidableEq, Repr

/-- the first loop: `seen` = defaultRouteSet so far; a second default route is an error -/
def scanDefault : List Entry → Bool → Option Bool
  | [], seen => some seen
  | e :: rest, seen => if e.defaultRoute ∧ seen then none else scanDefault rest (seen || e.defaultRoute)

/-- the second loop: the first primary interface becomes the default route -/
def setFirstDefault : List Entry → List Entry
  | [] => []
  | e :: rest => if isDefaultIf e.ifName then { e with defaultRoute := true } :: rest else e :: setFirstDefault rest

def defaultForNetConf (l : List Entry) : Except DErr (List Entry) :=
  match l with
  | [] => .ok []
  | _ =>
    match scanDefault l false with
    | none => .error .dupDefault
    | some seen =>
      if !(l.any fun e => isDefaultIf e.ifName) then .error .noDefaultIf
      else if seen then .ok l else .ok (setFirstDefault l)

/-! ## PodENI allocations → NetConf -/

inductive Cidr where
  | empty
  | bad
  | ok (addr len : Nat)
  deriving DecidableEq, Repr

/-- `DeriveGatewayIP` on a CIDR string of a `w`-bit family: `none` = "" -/
def gatewayOf (w : Nat) : Cidr → Option Nat
  | .ok a n => deriveGateway w a n
  | _ => none

structure Alloc where
  ip4 : Option Nat
  cidr4 : Cidr
  ip6 : Option Nat
  cidr6 : Cidr
  ifName : String
  defaultRoute : Bool
  /-- extra route destinations: (is IPv4, address, prefix length) -/
  extra : List (Bool × Nat × Nat)
  eniID : String
  mac : String
  deriving Repr

structure NetConf where
  ip4 : Option Nat
  cidr4 : Cidr
  gw4 : Option Nat
  ip6 : Option Nat
  cidr6 : Cidr
  gw6 : Option Nat
  ifName : String
  defaultRoute : Bool
  extra : List (Bool × Nat × Nat)
  mac : String
  trunk : Bool
  vid : Nat
  deriving Repr

/-- gateway of a family of an allocation: derived from the CIDR when the family has an address -/
def allocGw (w : Nat) (ip : Option Nat) (c : Cidr) : Option Nat := if ip.isSome then gatewayOf w c else none

/-- a family with an address needs a subnet and a derivable gateway (`cidr == "" || gw == ""` → nil) -/
def famOK (w : Nat) (ip : Option Nat) (c : Cidr) : Bool :=
  !(ip.isSome && (c == .empty || (allocGw w ip c).isNone))

def baseConf (a : Alloc) : NetConf :=
  { ip4 := a.ip4, cidr4 := if a.ip4.isSome then a.cidr4 else .empty, gw4 := allocGw 32 a.ip4 a.cidr4,
    ip6 := a.ip6, cidr6 := if a.ip6.isSome then a.cidr6 else .empty, gw6 := allocGw 128 a.ip6 a.cidr6,
    ifName := a.ifName, defaultRoute := a.defaultRoute, extra := a.extra, mac := a.mac, trunk := false, vid := 0 }

/-- trunk mode: the member ENI's VLAN id must be known, the trunk's MAC replaces the ENI's -/
def decorate (trunkMac : Option String) (vids : List (String × Nat)) (eniID : String) (base : NetConf) : Option NetConf :=
  match trunkMac with
  | none => some base
  | some tm =>
    match vids.lookup eniID with
    | none => none
    | some vid => some { base with mac := tm, trunk := true, vid := vid }

/-- one allocation; `none` makes the whole `ToRPC` return nil -/
def allocToRPC (trunkMac : Option String) (vids : List (String × Nat)) (a : Alloc) : Option NetConf :=
  if famOK 32 a.ip4 a.cidr4 && famOK 128 a.ip6 a.cidr6 then decorate trunkMac vids a.eniID (baseConf a) else none

def remoteToRPC (trunkMac : Option String) (vids : List (String × Nat)) : List Alloc → Option (List NetConf)
  | [] => some []
  | a :: rest =>
    match allocToRPC trunkMac vids a with
    | none => none
    | some c => (remoteToRPC trunkMac vids rest).map (c :: ·)

/-! ## plugin side -/

inductive IPType where
  | vpcIP | vpcENI | eniMultiIP
  deriving DecidableEq, Repr

inductive DataPath where
  | vpcRoute | exclusiveENI | vlan | ipvlan
  deriving DecidableEq, Repr

/-- `getDatePath`: a function of IP type, trunking and VLAN strip mode only; `stripVlan` is `vlan_strip_type == "vlan"`
    ("filter", a missing key and any other string all count as not-vlan) -/
def getDataPath (t : IPType) (stripVlan : Bool) (trunk : Bool) : DataPath :=
  match t with
  | .vpcIP => .vpcRoute
  | .vpcENI => if trunk then .vlan else .exclusiveENI
  | .eniMultiIP => if trunk ∧ stripVlan then .vlan else .ipvlan

structure Setup where
  /-- container address with the subnet's prefix length -/
  addr4 : Option (Nat × Nat)
  addr6 : Option (Nat × Nat)
  gw4 : Option Nat
  gw6 : Option Nat
  /-- routes: destination and the gateway of the destination's family -/
  routes : List (Bool × Nat × Nat × Option Nat)
  ingress : Nat
  egress : Nat
  defaultRoute : Bool
  ifName : String
  trunk : Bool
  vid : Nat
  dp : DataPath
  deriving Repr

/-- `BuildIPNet` for one family: both strings non-empty and parsable -/
def buildIPNet (ip : Option Nat) (c : Cidr) : Except Unit (Option (Nat × Nat)) :=
  match ip, c with
  | some a, .ok _ n => .ok (some (a, n))
  | some _, .bad => .error ()
  | _, _ => .ok none

/-- `parseSetupConf` for ENI-based IP types; pod limits from the daemon, overridden by a positive runtime rate (bits → bytes) -/
def parseSetup (t : IPType) (stripVlan : Bool) (argIf : String) (podIngress podEgress rtIngress rtEgress : Nat) (c : NetConf) :
    Except Unit Setup :=
  match buildIPNet c.ip4 c.cidr4, buildIPNet c.ip6 c.cidr6 with
  | .ok a4, .ok a6 =>
    .ok { addr4 := a4, addr6 := a6, gw4 := c.gw4, gw6 := c.gw6,
          routes := c.extra.map fun (v4, a, n) => (v4, a, n, if v4 then c.gw4 else c.gw6),
          ingress := if rtIngress > 0 then rtIngress / 8 else podIngress,
          egress := if rtEgress > 0 then rtEgress / 8 else podEgress,
          defaultRoute := c.defaultRoute,
          ifName := if c.ifName = "" then argIf else c.ifName,
          trunk := c.trunk, vid := c.vid, dp := getDataPath t stripVlan c.trunk }
  | _, _ => .error ()

/-! ## CRD mode: which interface an allocation result describes (pkg/eni/crdv2.go `multiIP`) -/

structure CrdEni where
  id : String
  inUse : Bool
  /-- address, valid, bound pod ("" = nobody) -/
  ips : List (Nat × Bool × String)
  deriving Repr

/-- the interface whose subnet, gateway and MAC the result carries: the in-use interface that holds a valid address
    bound to the pod (at most one interface does, C02) -/
def crdOwner (enis : List CrdEni) (pod : String) : Option String :=
  (enis.find? fun e => e.inUse && e.ips.any fun a => a.2.1 && a.2.2 == pod).map (·.id)

/-! ### a local result served from an interface the daemon found attached at start-up

`pkg/aliyun/eni.GetENIByMac` reads the interface's gateway and vSwitch CIDR of each enabled family from the instance metadata;
`LocalIPResource.ToRPC` reports them beside the pod's address.  The correspondence runs on the subnets `10.k.0.0/24` /
`fd00:k::/64` with the gateways `.253` / `::fffd`; the texts are Go's renderings. -/

structure MetaConf where
  gw4 : String
  gw6 : Option String
  cidr4 : String
  cidr6 : Option String
  deriving DecidableEq, Repr

def hexDigits (n : Nat) : String := String.ofList (Nat.toDigits 16 n)

/-- `fd00:k:` with Go's zero compression -/
def v6Prefix (k : Nat) : String := if k = 0 then "fd00::" else s!"fd00:{hexDigits k}::"

def metaNetConf (v6 : Bool) (k : Nat) : MetaConf :=
  { gw4 := s!"10.{k}.0.253", cidr4 := s!"10.{k}.0.0/24",
    gw6 := if v6 then some (v6Prefix k ++ "fffd") else none,
    cidr6 := if v6 then some (v6Prefix k ++ "/64") else none }

end Terway.NetConf
