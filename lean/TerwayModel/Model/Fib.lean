import TerwayModel.Model.Datapath
/-
A deliberately small model of Linux policy routing (C13): rules in ascending priority (stable for equal
priorities), the first matching rule whose table has a route for the destination wins, longest prefix
first inside a table.  Validated against this kernel by the harness (private netns, veth pairs), not verified.
-/
namespace Terway.Fib
open Terway.Datapath

structure Pkt where
  fam : Fam
  src : Nat
  dst : Nat
  deriving Repr

def pfxContains (p : Pfx) (f : Fam) (a : Nat) : Bool :=
  p.fam == f && a / 2 ^ (f.bits - p.len) == p.addr / 2 ^ (f.bits - p.len)

def optContains (p : Option Pfx) (f : Fam) (a : Nat) : Bool :=
  match p with
  | none => true
  | some q => pfxContains q f a

/-- output-interface rules only apply to locally generated traffic bound to an interface; the
    lookups modelled here are for forwarded / unbound traffic -/
def ruleMatches (r : Rule) (k : Pkt) : Bool :=
  optContains r.src k.fam k.src && optContains r.dst k.fam k.dst && r.oif.isNone

def tableId (t : Nat) : Nat := if t = 0 then mainTable else t

/-- longest-prefix match; the earlier route wins a tie -/
def bestRoute (f : Fam) (dst : Nat) : List Route → Option Route
  | [] => none
  | r :: rs =>
    let b := bestRoute f dst rs
    if pfxContains r.dst f dst then
      match b with
      | none => some r
      | some x => if x.dst.len > r.dst.len then some x else some r
    else b

structure Host where
  rules : List Rule
  routes : List Route
  deriving Repr

def insertRule (r : Rule) : List Rule → List Rule
  | [] => [r]
  | x :: xs => if r.prio < x.prio then r :: x :: xs else x :: insertRule r xs

/-- ascending priority, insertion order kept among equal priorities -/
def sortRules : List Rule → List Rule
  | [] => []
  | r :: rs => insertRule r (sortRules rs)

def yield (h : Host) (k : Pkt) (r : Rule) : Option Route :=
  if ruleMatches r k then bestRoute k.fam k.dst (h.routes.filter fun rt => tableId rt.table == tableId r.table) else none

def firstYield (h : Host) (k : Pkt) : List Rule → Option Route
  | [] => none
  | r :: rs =>
    match yield h k r with
    | some rt => some rt
    | none => firstYield h k rs

def lookup (h : Host) (k : Pkt) : Option Route := firstYield h k (sortRules h.rules)

/-! ### the host state the policy-route datapath builds -/

/-- one pod on the policy-route datapath, IPv4 and/or IPv6 address with its ENI -/
structure Pod where
  cfg : Cfg
  veth : Nat
  eni : Nat
  deriving Repr

def Pod.hostRules (p : Pod) : List Rule := (genHostPeerPolicy p.cfg p.veth "" (tableOf p.eni)).rules
def Pod.vethRoutes (p : Pod) : List Route := (genHostPeerPolicy p.cfg p.veth "" (tableOf p.eni)).routes
def Pod.eniRoutes (p : Pod) : List Route := (genENIPolicy p.cfg p.eni "" (tableOf p.eni)).routes

/-- `main` lookup of the kernel's default rule set -/
def mainRule : Rule := { prio := 32766, table := mainTable }

/-- setup of all pods on top of the node's own main-table routes (`nic.Setup` only ever adds) -/
def hostState (base : List Route) (pods : List Pod) : Host :=
  { rules := mainRule :: pods.flatMap Pod.hostRules,
    routes := base ++ pods.flatMap fun p => p.vethRoutes ++ p.eniRoutes }

/-- `PolicyRoute.Teardown` + deletion of the host veth (its routes go with it) -/
def teardown (p : Pod) (h : Host) : Host :=
  let sel (r : Rule) : Bool :=
    (match p.cfg.ip4 with | some (a, _) => teardownSelects .v4 a r | none => false) ||
    (match p.cfg.ip6 with | some (a, _) => teardownSelects .v6 a r | none => false)
  { rules := h.rules.filter fun r => !sel r, routes := h.routes.filter fun rt => rt.dev != p.veth }

/-! ### how `nic.Setup` programs the kernel: `utils.EnsureIPRule` / `utils.EnsureRoute` -/

/-- rules are looked up by priority, source, destination and output interface (`FindIPRule`) -/
def ruleKey (r : Rule) : Nat × Option Pfx × Option Pfx × Option String := (r.prio, r.src, r.dst, r.oif)

/-- `EnsureIPRule`: rules with the same key but another table are deleted; the rule is added unless already there -/
def ensureRule (rules : List Rule) (r : Rule) : List Rule :=
  (rules.filter fun x => decide (ruleKey x ≠ ruleKey r) || decide (x = r)) ++ (if r ∈ rules then [] else [r])

def routeKey (r : Route) : Nat × Pfx := (tableId r.table, r.dst)

/-- `EnsureRoute`: nothing if the very route exists, else `RouteReplace` (same table and destination is replaced) -/
def ensureRoute (routes : List Route) (r : Route) : List Route :=
  if r ∈ routes then routes else (routes.filter fun x => decide (routeKey x ≠ routeKey r)) ++ [r]

/-- `PolicyRoute.Setup`, host side: ENI configuration first, then the host veth's -/
def setupPod (h : Host) (p : Pod) : Host :=
  { rules := p.hostRules.foldl ensureRule h.rules,
    routes := (p.eniRoutes ++ p.vethRoutes).foldl ensureRoute h.routes }

/-- the daemon's periodic pass over one pod (`ruleSync`, run from `gcPods`): for every interface of the pod - each with its own
host veth, found by the interface's name - the host side of the setup is asserted again -/
def ruleSync (h : Host) (ifaces : List Pod) : Host := ifaces.foldl setupPod h

/-! ### `utils.CleanIPRules` (run in the host namespace by every CNI DEL, through `GenericTearDown`)

Rules of the two pod priorities that are bound to a device (older releases wrote `iif` / `oif` rules) whose device is gone are
deleted, and with each of them the address-only rules of those priorities for the same address.  In the model a device-bound rule
is a rule with `oif` set, and every such device is a vanished one (the current code binds no host rule to a device). -/

def isPodPrio (r : Rule) : Bool := r.prio == toContainerPrio || r.prio == fromContainerPrio

def deadRules (rules : List Rule) : List Rule := rules.filter fun r => isPodPrio r && r.oif.isSome

/-- the address a dead rule was about: its source if it has one, else its destination -/
def deadNets (rules : List Rule) : List Pfx := (deadRules rules).filterMap fun r => match r.src with | some s => some s | none => r.dst

def optIn (o : Option Pfx) (nets : List Pfx) : Bool := match o with | some p => nets.contains p | none => false

def cleanRules (rules : List Rule) : List Rule :=
  let nets := deadNets rules
  rules.filter fun r => !(isPodPrio r && (r.oif.isSome || optIn r.dst nets || optIn r.src nets))

end Terway.Fib
