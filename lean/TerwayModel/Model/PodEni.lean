/-
Model of the per-pod ENI lifecycle (C10, C11): the pod controller (`P`, pkg/controller/pod), the PodENI
controller (`E`, pkg/controller/pod-eni `Reconcile`), the record collector (`G`, `gcCRPodENIs`) and the
leaked-interface collector (`L`, `gcENIs`), for ONE pod name, at the granularity of single API-server and
cloud calls: every call one of the four actors makes is one event, carrying what the call answered.
`step` accepts an event when the actor, given everything it has read so far in this reconciliation, can
make that call and the world can answer that way; it is deliberately permissive about *not* acting (an
actor may end a reconciliation wherever no obligation is pending) and exact about every write.

The API server is modelled with global, never reused object versions (optimistic concurrency: an
`Update`/`Status().Update` carries the version it read; `Patch` and `Delete` do not) and a finalizer on
every record; the cloud with fresh interface ids.
-/
namespace Terway.PE

inductive Phase | initial | bind | binding | unbind | detaching | deleting
  deriving DecidableEq, Repr, Inhabited

/-- allocation type and release strategy of one interface of a record.
`bad`: type Fixed with an unknown strategy, or TTL with an unparsable / negative duration (kept). -/
inductive Strat | elastic | never | ttl (d : Nat) | bad
  deriving DecidableEq, Repr, Inhabited

structure Alloc where
  eni : Nat
  ip : Nat
  strat : Strat
  deriving DecidableEq, Repr, Inhabited

def Alloc.fixed (a : Alloc) : Bool := a.strat != .elastic

structure Rec where
  ver : Nat
  phase : Phase
  uid : Nat
  del : Bool                 -- deletionTimestamp set (the finalizer is still there)
  allocs : List Alloc
  inst : Option Nat          -- status.instanceID
  lastSeen : Option Nat      -- status.podLastSeen (none: zero time)
  deriving DecidableEq, Repr, Inhabited

def Rec.fixed (r : Rec) : Bool := r.allocs.any Alloc.fixed
def Rec.enis (r : Rec) : List Nat := r.allocs.map (·.eni)

structure Pod where
  uid : Nat
  exited : Bool              -- phase Succeeded / Failed (terminal)
  needs : Bool               -- static part of podRequirePodENI (annotation / exclusive node, not host network, not ignored)
  fixedName : Bool           -- no owner or owned by a StatefulSet-like kind
  deriving DecidableEq, Repr, Inhabited

structure Eni where
  id : Nat
  ip : Nat
  att : Option Nat           -- instance it is attached to
  ctime : Nat
  ours : Bool                -- carries both controller tags with this cluster's values
  member : Bool              -- type Member (trunk child) rather than Secondary
  deriving DecidableEq, Repr, Inhabited

inductive Res | ok | stale | err
  deriving DecidableEq, Repr, Inhabited

/-- program counter of the pod controller's reconciliation for this name -/
inductive PPc
  | idle
  | start
  | del                                   -- pod absent or exited: podDelete, record not read yet
  | cre (u : Nat)                         -- pod `u` live and needing an interface: podCreate, record not read yet
  | upd (ver : Nat) (ph : Phase)          -- decided: status update to `ph`
  | reconf (u : Nat) (ver : Nat) (ru : Nat)  -- reConfig on an unbound record (read at `ver`, owner `ru`)
  | delRec                                -- decided: delete the record (bound to another uid, not fixed)
  | creating (u : Nat) (made : List Alloc) (failed : Bool)
  | rollback (rem : List Nat)
  | fin
  deriving DecidableEq, Repr, Inhabited

inductive EPc
  | idle
  | start
  | delRec
  | detach (r : Rec) (tear : Bool)        -- Detaching (tear = false) or deletion with finalizer (tear = true)
  | attach (r : Rec) (fixedName : Option Bool) (inst : Option Nat) (failed : Bool)
  | fin
  deriving DecidableEq, Repr, Inhabited

/-- what `G` learned about the pod -/
inductive PodSeen | absent | present (u : Nat) (exited needs : Bool)
  deriving DecidableEq, Repr, Inhabited

inductive GPc
  | idle
  | listed (r : Rec)
  | seen (r : Rec) (p : PodSeen) (nodeErr : Bool)
  deriving DecidableEq, Repr, Inhabited

inductive LPc
  | idle
  | desc (cands : List Nat) (inuse : Bool)
  | listed (cands : List Nat) (inuse : Bool)
  deriving DecidableEq, Repr, Inhabited

structure St where
  now : Nat := 0
  nextUid : Nat := 0
  nextVer : Nat := 0
  nextEni : Nat := 0
  pod : Option Pod := none
  rcd : Option Rec := none
  cloud : List Eni := []
  p : PPc := .idle
  e : EPc := .idle
  g : GPc := .idle
  l : LPc := .idle
  /-- ghost: the last time the controller observed the pod of a fixed record (bind, or a collector pass that found it) -/
  obs : Option Nat := none
  /-- ghost: interfaces a failed roll-back could not delete -/
  leaked : List Nat := []
  /-- ghost: interfaces somebody else created -/
  ext : List Nat := []
  deriving Repr, Inhabited, DecidableEq

/-! ### cloud helpers -/

def find (c : List Eni) (id : Nat) : Option Eni := c.find? (·.id == id)
def setAtt (c : List Eni) (id : Nat) (a : Option Nat) : List Eni :=
  c.map fun e => if e.id == id then { e with att := a } else e
def remove (c : List Eni) (id : Nat) : List Eni := c.filter (·.id != id)

def attachedTo (c : List Eni) (id : Nat) (i : Nat) : Bool :=
  match find c id with | some e => e.att == some i | none => false
def notAttached (c : List Eni) (id : Nat) : Bool :=
  match find c id with | some e => e.att.isNone | none => true
def absent (c : List Eni) (id : Nat) : Bool := (find c id).isNone

/-! ### decisions -/

def grace : Nat := 600

/-- one allocation's vote in the record collector -/
def allocKeeps (ls : Option Nat) (now : Nat) : Strat → Bool
  | .elastic => false
  | .never => true
  | .bad => true
  | .ttl d => match ls with
    | none => false
    | some t => now < t + d

/-- `gcCRPodENIs`: keep the record when any allocation says keep -/
def keep (allocs : List Alloc) (ls : Option Nat) (now : Nat) : Bool :=
  allocs.any fun a => allocKeeps ls now a.strat

def PodSeen.requires (nodeErr : Bool) : PodSeen → Bool
  | .absent => false
  | .present _ exited needs => !exited && (needs || nodeErr)

/-- phases in which the record collector leaves a record alone -/
def Phase.busy : Phase → Bool
  | .detaching | .deleting | .binding => true
  | _ => false

/-- `gcENIs` step 1: ours, older than the grace period -/
def leakCand (now : Nat) (e : Eni) : Bool := e.ours && decide (e.ctime + grace ≤ now)

/-- what the collector's listing returns: secondary + available, or member + in use -/
def listed (inuse : Bool) (e : Eni) : Bool :=
  if inuse then e.member && e.att.isSome else !e.member && e.att.isNone

def needAttach (r : Rec) (fixedName : Bool) : Bool :=
  r.phase == .initial || (fixedName && r.fixed)

/-! ### events -/

inductive PodRes | err | absent | exited | term | live (u : Nat) (needs : Bool)
  deriving DecidableEq, Repr

inductive DescRes | err | absent | free | att (i : Nat)
  deriving DecidableEq, Repr

inductive Ev
  -- environment
  | podCreate (needs fixedName : Bool)
  | podExit
  | podRemove
  | tick (d : Nat)
  | foreign (e : Eni)                         -- an interface somebody else created
  -- pod controller
  | pStart
  | pGetPod (r : PodRes)
  | pGetRec (fault : Bool)
  | pStatus (ver : Nat) (ph : Phase) (r : Res)
  | pSetUid (ver : Nat) (u : Nat) (r : Res)
  | pPatchLabel (r : Res)
  | pDeleteRec (r : Res)
  | pCloudCreate (ok : Bool) (id ip : Nat)
  | pCreateRec (allocs : List (Nat × Strat)) (r : Res)
  | pCloudDelete (id : Nat) (ok : Bool)
  | pDone
  -- PodENI controller
  | eStart
  | eGetRec (fault : Bool)
  | eDeleteRec (r : Res)
  | eDescribe (id : Nat) (r : DescRes)
  | eDetach (id : Nat) (ok : Bool)
  | eWait (id : Nat) (ok : Bool)              -- WaitForNetworkInterface (either direction)
  | eStatusUnbind (ver : Nat) (r : Res)
  | eCloudDelete (id : Nat) (ok : Bool)
  | eFinalize (ver : Nat) (r : Res)
  | eGetPod (r : PodRes)
  | eGetNode (inst : Option Nat)
  | eAttach (id : Nat) (inst : Nat) (ok : Bool)
  | eStatusBind (ver : Nat) (inst : Nat) (r : Res)
  | eDone
  -- record collector
  | gList
  | gGetPod (r : Option PodSeen)              -- none: the lookup failed
  | gNodeErr
  | gTouch (r : Res)
  | gReap (ver : Nat) (r : Res)
  | gEnd
  -- leaked-interface collector
  | lDescribe (inuse : Bool)
  | lList
  | lDelete (id : Nat) (ok : Bool)
  | lDetach (id : Nat) (ok : Bool)
  | lEnd
  -- daemon (pkg/eni/remote.go): does it accept the record for pod instance `u`?
  | dAccept (u : Nat) (ok : Bool)
  deriving Repr

/-! ### transitions -/

def St.bump (s : St) (f : Rec → Rec) : St :=
  match s.rcd with
  | some r => { s with rcd := some { f r with ver := s.nextVer }, nextVer := s.nextVer + 1 }
  | none => s

def podMatches (p : Option Pod) : PodRes → Bool
  | .err => true
  | .absent => p.isNone
  | .exited => match p with | some q => q.exited | none => false
  | .term => match p with | some q => !q.exited | none => false
  | .live u n => match p with | some q => q.uid == u && !q.exited && q.needs == n | none => false

/-- is the pod controller between its first cloud creation and the end of its roll-back? (no clock step there) -/
def PPc.inCreate : PPc → Bool
  | .creating _ made _ => !made.isEmpty
  | .rollback rem => !rem.isEmpty
  | _ => false

def stepEnv (s : St) : Ev → Option St
  | .podCreate needs fixedName =>
    if s.pod.isNone then
      some { s with pod := some { uid := s.nextUid, exited := false, needs, fixedName }, nextUid := s.nextUid + 1 }
    else none
  | .podExit => match s.pod with
    | some q => some { s with pod := some { q with exited := true } }
    | none => none
  | .podRemove => if s.pod.isSome then some { s with pod := none } else none
  | .tick d => if s.p.inCreate then none else some { s with now := s.now + d }
  | .foreign e =>
    if s.nextEni ≤ e.id && decide (e.ctime ≤ s.now) then some { s with cloud := s.cloud ++ [e], nextEni := e.id + 1, ext := s.ext ++ [e.id] } else none
  | _ => none

/-- the pod controller after reading the record on the podDelete path -/
def pAfterDel (r : Rec) : PPc :=
  if r.phase == .deleting || r.del then .fin
  else if r.fixed then (if r.phase == .detaching || r.phase == .unbind then .fin else .upd r.ver .detaching)
  else .upd r.ver .deleting

/-- the pod controller after reading the record on the podCreate path -/
def pAfterCre (u : Nat) (r : Rec) : PPc :=
  if r.del then .fin
  else match r.phase with
    | .unbind => .reconf u r.ver r.uid
    -- a record of another pod instance is taken apart, bound or not yet bound (the latter since fix 64cfd19: its
    -- interfaces may have been attached for the previous instance)
    | .bind | .initial => if r.uid == u then .fin else if r.fixed then .upd r.ver .detaching else .delRec
    | _ => .fin

/-- `Delete` on a record with a finalizer: the deletion timestamp is set (once) -/
def markDel (r : Rec) (v : Nat) : Rec := if r.del then r else { r with del := true, ver := v }

def deleteRec (s : St) : St :=
  match s.rcd with
  | some r => { s with rcd := some (markDel r s.nextVer), nextVer := if r.del then s.nextVer else s.nextVer + 1 }
  | none => s

/-- which status write the pod controller has decided on -/
def pStatusOK (p : PPc) (ver : Nat) (ph : Phase) : Bool :=
  match p with
  | .upd v q => v == ver && q == ph
  | .reconf u v ru => v == ver && ph == .binding && ru == u
  | _ => false

/-- the created interfaces with the release strategies the record gives them -/
def stamp (made : List Alloc) (allocs : List (Nat × Strat)) : List Alloc :=
  made.map fun a => { a with strat := (allocs.lookup a.eni).getD .elastic }

def stepP (s : St) : Ev → Option St
  | .pStart => if s.p == .idle then some { s with p := .start } else none
  | .pGetPod v =>
    if s.p == .start && podMatches s.pod v then
      match v with
      | .err | .term => some { s with p := .fin }
      | .absent | .exited => some { s with p := .del }
      | .live u needs => some { s with p := if needs then .cre u else .fin }
    else none
  | .pGetRec fault =>
    match s.p with
    | .del =>
      if fault then some { s with p := .fin } else
      match s.rcd with
      | none => some { s with p := .fin }
      | some r => some { s with p := pAfterDel r }
    | .cre u =>
      match fault, s.rcd with
      | false, some r => some { s with p := pAfterCre u r }
      | _, _ => some { s with p := .creating u [] false }
    | _ => none
  | .pStatus ver ph res =>
    if pStatusOK s.p ver ph then
      match res, s.rcd with
      | .ok, some r => if r.ver == ver then some { (s.bump fun r => { r with phase := ph }) with p := .fin } else none
      | .ok, none => none
      | .stale, some r => if r.ver != ver then some { s with p := .fin } else none
      | .stale, none => some { s with p := .fin }
      | .err, _ => some { s with p := .fin }
    else none
  | .pSetUid ver u res =>
    match s.p with
    | .reconf u' v ru =>
      if u' == u && v == ver && ru != u then
        match res, s.rcd with
        | .ok, some r => if r.ver == ver then some { (s.bump fun r => { r with uid := u }) with p := .fin } else none
        | .ok, none => none
        | .stale, some r => if r.ver != ver then some { s with p := .fin } else none
        | .stale, none => some { s with p := .fin }
        | .err, _ => some { s with p := .fin }
      else none
    | _ => none
  | .pPatchLabel res =>
    match s.p with
    | .reconf _ _ _ =>
      match res, s.rcd with
      | .ok, some _ => some { (s.bump id) with p := .fin }
      | .ok, none => none
      | .stale, some _ => none
      | .stale, none => some { s with p := .fin }
      | .err, _ => some { s with p := .fin }
    | _ => none
  | .pDeleteRec res =>
    if s.p == .delRec then
      match res, s.rcd with
      | .ok, some _ => some { deleteRec s with p := .fin }
      | .ok, none => none
      | .stale, some _ => none
      | .stale, none => some { s with p := .fin }
      | .err, _ => some { s with p := .fin }
    else none
  | .pCloudCreate ok id ip =>
    match s.p with
    | .creating u made failed =>
      if !ok then some { s with p := .creating u made true }
      else if s.nextEni ≤ id then
        some { s with
          cloud := s.cloud ++ [{ id, ip, att := none, ctime := s.now, ours := true, member := false }],
          nextEni := id + 1,
          p := .creating u (made ++ [{ eni := id, ip, strat := .elastic }]) failed }
      else none
    | _ => none
  | .pCreateRec allocs res =>
    match s.p with
    | .creating u made false =>
      let ids := allocs.map (·.1)
      if ids.all (fun i => (made.map (·.eni)).contains i) && (made.map (·.eni)).all (fun i => ids.contains i) then
        match res, s.rcd with
        | .ok, none =>
          some { s with
            rcd := some { ver := s.nextVer, phase := .initial, uid := u, del := false, allocs := stamp made allocs,
                          inst := none, lastSeen := none },
            nextVer := s.nextVer + 1, p := .fin, obs := none }
        | .ok, some _ => none
        | .stale, some _ => some { s with p := .rollback (made.map (·.eni)) }   -- AlreadyExists
        | .stale, none => none
        | .err, _ => some { s with p := .rollback (made.map (·.eni)) }
      else none
    | _ => none
  | .pCloudDelete id ok =>
    let rem? : Option (List Nat) := match s.p with
      | .rollback rem => some rem
      | .creating _ made true => some (made.map (·.eni))
      | _ => none
    match rem? with
    | none => none
    | some rem =>
      if rem.contains id then
        if ok then
          if notAttached s.cloud id then some { s with cloud := remove s.cloud id, p := .rollback (rem.erase id) } else none
        else some { s with leaked := s.leaked ++ rem, p := .fin }
      else none
  | .pDone =>
    match s.p with
    | .idle => none
    | .creating _ made _ => if made.isEmpty then some { s with p := .idle } else none
    | .rollback rem => if rem.isEmpty then some { s with p := .idle } else none
    -- a decided write is attempted: nothing that can fail lies between the decision and the call
    | .upd _ _ => none
    | .delRec => none
    | _ => some { s with p := .idle }
  | _ => none

def descMatches (c : List Eni) (id : Nat) : DescRes → Bool
  | .err => true
  | .absent => (find c id).isNone
  | .free => match find c id with | some e => e.att.isNone | none => false
  | .att i => match find c id with | some e => e.att == some i | none => false

/-- the status written when all interfaces are attached -/
def bindRec (inst now : Nat) (c : Rec) : Rec :=
  { c with phase := .bind, inst := some inst, lastSeen := if c.fixed then some now else c.lastSeen }

def stepE (s : St) : Ev → Option St
  | .eStart => if s.e == .idle then some { s with e := .start } else none
  | .eGetRec fault =>
    if s.e == .start then
      if fault then some { s with e := .fin } else
      match s.rcd with
      | none => some { s with e := .fin }
      | some r =>
        if r.del then some { s with e := .detach r true } else
        match r.phase with
        | .bind | .unbind => some { s with e := .fin }
        | .detaching => some { s with e := .detach r false }
        | .deleting => some { s with e := .delRec }
        | .initial | .binding => some { s with e := .attach r none none false }
    else none
  | .eDeleteRec res =>
    if s.e == .delRec then
      match res, s.rcd with
      | .ok, some _ => some { deleteRec s with e := .fin }
      | .ok, none => none
      | .stale, some _ => none
      | .stale, none => some { s with e := .fin }
      | .err, _ => some { s with e := .fin }
    else none
  | .eDescribe id res =>
    match s.e with
    | .detach r _ =>
      if r.enis.contains id && r.inst.isNone && r.phase != .unbind && descMatches s.cloud id res then
        (if res == .err then some { s with e := .fin } else some s)
      else none
    | _ => none
  | .eDetach id ok =>
    match s.e with
    | .detach r _ =>
      if r.enis.contains id && r.phase != .unbind then
        (if ok then some { s with cloud := setAtt s.cloud id none } else some { s with e := .fin })
      else none
    | _ => none
  | .eWait id ok =>
    match s.e with
    | .detach r _ => if r.enis.contains id then (if ok then some s else some { s with e := .fin }) else none
    | .attach r fn inst _ => if r.enis.contains id then (if ok then some s else some { s with e := .attach r fn inst true }) else none
    | _ => none
  | .eStatusUnbind ver res =>
    match s.e with
    | .detach r false =>
      if r.ver == ver then
        match res, s.rcd with
        | .ok, some c =>
          if c.ver == ver && r.enis.all (notAttached s.cloud) then
            some { (s.bump fun r => { r with phase := .unbind, inst := none }) with e := .fin }
          else none
        | .ok, none => none
        | .stale, some c => if c.ver != ver then some { s with e := .fin } else none
        | .stale, none => some { s with e := .fin }
        | .err, _ => some { s with e := .fin }
      else none
    | _ => none
  | .eCloudDelete id ok =>
    match s.e with
    | .detach r true =>
      if r.enis.contains id then
        if ok then (if notAttached s.cloud id then some { s with cloud := remove s.cloud id } else none)
        else some { s with e := .fin }
      else none
    | _ => none
  | .eFinalize ver res =>
    match s.e with
    | .detach r true =>
      if r.ver == ver then
        match res, s.rcd with
        | .ok, some c =>
          if c.ver == ver && r.enis.all (absent s.cloud) then some { s with rcd := none, nextVer := s.nextVer + 1, e := .fin } else none
        | .ok, none => none
        | .stale, some c => if c.ver != ver then some { s with e := .fin } else none
        | .stale, none => some { s with e := .fin }
        | .err, _ => some { s with e := .fin }
      else none
    | _ => none
  | .eGetPod v =>
    match s.e with
    | .attach r none none false =>
      if podMatches s.pod v then
        match v, s.pod with
        | .err, _ | .absent, _ => some { s with e := .fin }
        | _, some q => some { s with e := .attach r (some q.fixedName) none false }
        | _, none => none
      else none
    | _ => none
  | .eGetNode inst =>
    match s.e with
    | .attach r (some fn) none false =>
      match inst with
      | none => some { s with e := .fin }
      | some i => if needAttach r fn then some { s with e := .attach r (some fn) (some i) false } else some { s with e := .fin }
    | _ => none
  | .eAttach id inst ok =>
    match s.e with
    | .attach r fn (some i) failed =>
      if r.enis.contains id && i == inst then
        if ok then
          match find s.cloud id with
          | some e => if e.att.isNone || e.att == some inst then some { s with cloud := setAtt s.cloud id (some inst) } else none
          | none => none
        else some { s with e := .attach r fn (some i) true }
      else none
    | _ => none
  | .eStatusBind ver inst res =>
    match s.e with
    | .attach r _ (some i) false =>
      if r.ver == ver && i == inst then
        match res, s.rcd with
        | .ok, some c =>
          if c.ver == ver && r.enis.all (fun e => attachedTo s.cloud e inst) then
            some { (s.bump (bindRec inst s.now)) with e := .fin, obs := if r.fixed then some s.now else s.obs }
          else none
        | .ok, none => none
        | .stale, some c => if c.ver != ver then some { s with e := .fin } else none
        | .stale, none => some { s with e := .fin }
        | .err, _ => some { s with e := .fin }
      else none
    | _ => none
  | .eDone => if s.e == .idle then none else some { s with e := .idle }
  | _ => none

def seenMatches (p : Option Pod) : PodSeen → Bool
  | .absent => p.isNone
  | .present u ex n => match p with | some q => q.uid == u && q.exited == ex && q.needs == n | none => false

def stepG (s : St) : Ev → Option St
  | .gList =>
    match s.g, s.rcd with
    | .idle, some r => some { s with g := .listed r }
    | _, _ => none
  | .gGetPod v =>
    match s.g with
    | .listed r =>
      match v with
      | none => some { s with g := .idle }
      | some p =>
        if seenMatches s.pod p then
          some { s with g := .seen r p false,
                        obs := if p.requires false && r.fixed then some s.now else s.obs }
        else none
    | _ => none
  | .gNodeErr =>
    match s.g with
    | .seen r (.present u false needs) false =>
      some { s with g := .seen r (.present u false needs) true, obs := if r.fixed then some s.now else s.obs }
    | _ => none
  | .gTouch res =>
    match s.g with
    | .seen r p ne =>
      if p.requires ne && r.fixed then
        match res, s.rcd with
        | .ok, some _ => some { (s.bump fun c => { c with lastSeen := some s.now }) with g := .idle }
        | .ok, none => none
        | .stale, none => some { s with g := .idle }
        | .stale, some _ => none
        | .err, _ => none          -- no fault is ever injected here (C11 does not quantify over API errors)
      else none
    | _ => none
  | .gReap ver res =>
    match s.g with
    | .seen r p ne =>
      if !p.requires ne && !r.phase.busy && !keep r.allocs r.lastSeen s.now && r.ver == ver then
        match res, s.rcd with
        | .ok, some c => if c.ver == ver then some { (s.bump fun c => { c with phase := .deleting }) with g := .idle } else none
        | .ok, none => none
        | .stale, some c => if c.ver != ver then some { s with g := .idle } else none
        | .stale, none => some { s with g := .idle }
        | .err, _ => some { s with g := .idle }
      else none
    | _ => none
  | .gEnd =>
    match s.g with
    | .idle => none
    | .listed _ => some { s with g := .idle }
    | .seen r p ne => if p.requires ne && r.fixed then none else some { s with g := .idle }
  | _ => none

def stepL (s : St) : Ev → Option St
  | .lDescribe inuse =>
    if s.l == .idle then
      some { s with l := .desc (((s.cloud.filter (listed inuse)).filter (leakCand s.now)).map (·.id)) inuse }
    else none
  | .lList =>
    match s.l with
    | .desc cands inuse =>
      let refs := match s.rcd with | some r => r.enis | none => []
      some { s with l := .listed (cands.filter fun c => !refs.contains c) inuse }
    | _ => none
  | .lDelete id ok =>
    match s.l with
    | .listed cands false =>
      if cands.contains id then
        if ok then (if notAttached s.cloud id then some { s with cloud := remove s.cloud id } else none) else some s
      else none
    | _ => none
  | .lDetach id ok =>
    match s.l with
    | .listed cands true =>
      if cands.contains id then (if ok then some { s with cloud := setAtt s.cloud id none } else some s) else none
    | _ => none
  | .lEnd => if s.l == .idle then none else some { s with l := .idle }
  | _ => none

/-- the daemon takes the interfaces of a record only when it is bound, not being deleted, owned by the asking
    pod instance and not empty (Remote.Allocate) -/
def daemonAccepts (s : St) (u : Nat) : Bool :=
  match s.rcd with
  | some c => !c.del && c.phase == .bind && c.uid == u && !c.allocs.isEmpty
  | none => false

def stepD (s : St) : Ev → Option St
  | .dAccept u ok => if ok == daemonAccepts s u then some s else none
  | _ => none

def step (s : St) (ev : Ev) : Option St :=
  match ev with
  | .podCreate .. | .podExit | .podRemove | .tick _ | .foreign _ => stepEnv s ev
  | .pStart | .pGetPod _ | .pGetRec _ | .pStatus .. | .pSetUid .. | .pPatchLabel _ | .pDeleteRec _
  | .pCloudCreate .. | .pCreateRec .. | .pCloudDelete .. | .pDone => stepP s ev
  | .eStart | .eGetRec _ | .eDeleteRec _ | .eDescribe .. | .eDetach .. | .eWait .. | .eStatusUnbind ..
  | .eCloudDelete .. | .eFinalize .. | .eGetPod _ | .eGetNode _ | .eAttach .. | .eStatusBind .. | .eDone => stepE s ev
  | .gList | .gGetPod _ | .gNodeErr | .gTouch _ | .gReap .. | .gEnd => stepG s ev
  | .lDescribe _ | .lList | .lDelete .. | .lDetach .. | .lEnd => stepL s ev
  | .dAccept .. => stepD s ev

/-- run a history; `none` when some event is not accepted -/
def run (s : St) : List Ev → Option St
  | [] => some s
  | ev :: rest => match step s ev with
    | some t => run t rest
    | none => none

end Terway.PE
