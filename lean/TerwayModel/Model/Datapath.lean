import TerwayModel.Generated.Consts
/-
Model of the datapath configuration generators (C13):
  plugin/datapath/policy_router_linux.go  generateContCfgForPolicy, GenerateHostPeerCfgForPolicy, GenerateENICfgForPolicy, Teardown selectors
  plugin/datapath/ipvlan_linux.go         generateContCfgForIPVlan, generateSlaveLinkCfgForIPVlan, generateENICfgForIPVlan
  plugin/datapath/exclusive_eni_linux.go  generateContCfgForExclusiveENI
  plugin/datapath/vlan_linux.go           generateContCfgForVlan
Each generator is a pure function from the setup configuration to a `nic.Conf`-shaped value.
-/
namespace Terway.Datapath

inductive Fam where
  | v4 | v6
  deriving DecidableEq, Repr

def Fam.bits : Fam → Nat
  | .v4 => 32
  | .v6 => 128

/-- an address prefix -/
structure Pfx where
  fam : Fam
  addr : Nat
  len : Nat
  deriving DecidableEq, Repr

def Pfx.host (f : Fam) (a : Nat) : Pfx := { fam := f, addr := a, len := f.bits }
def Pfx.default (f : Fam) : Pfx := { fam := f, addr := 0, len := 0 }

structure Addr where
  pfx : Pfx
  /-- `Scope: SCOPE_HOST` / `Flags: IFA_F_NODAD` on the ipvlan slave addresses -/
  special : Bool := false
  deriving DecidableEq, Repr

/-- routing table ids: 0 = unspecified (main) as in `netlink.Route`, 254 = `RT_TABLE_MAIN` in rules -/
structure Route where
  table : Nat := 0
  dst : Pfx
  gw : Option Nat := none
  dev : Nat
  scopeLink : Bool := false
  onlink : Bool := false
  deriving DecidableEq, Repr

structure Rule where
  prio : Nat
  src : Option Pfx := none
  dst : Option Pfx := none
  oif : Option String := none
  table : Nat
  deriving DecidableEq, Repr

inductive MacKind where
  | peer | own | fixed
  deriving DecidableEq, Repr

structure Neigh where
  fam : Fam
  ip : Nat
  dev : Nat
  mac : MacKind
  deriving DecidableEq, Repr

structure Conf where
  ifName : String := ""
  addrs : List Addr := []
  routes : List Route := []
  rules : List Rule := []
  neighs : List Neigh := []
  /-- IPv6 sysctls are written: `(interface name, disableRA, enableForward)` -/
  sysctl6 : Option (String × Bool × Bool) := none
  stripVlan : Bool := false
  deriving Repr

/-- the part of `types.SetupConfig` the generators read -/
structure Cfg where
  ip4 : Option (Nat × Nat)       -- ContainerIPNet.IPv4: address and prefix length
  ip6 : Option (Nat × Nat)
  gw4 : Option Nat               -- GatewayIP
  gw6 : Option Nat
  host4 : Option Nat             -- HostIPSet (ipvlan)
  host6 : Option Nat
  eniGw4 : Option Nat            -- ENIGatewayIP (trunk)
  eniGw6 : Option Nat
  stripVlan : Bool
  defaultRoute : Bool
  multiNetwork : Bool
  extra : List (Pfx × Option Nat)   -- ExtraRoutes: destination, gateway
  ifName : String
  deriving Repr

def toContainerPrio : Nat := Gen.dpToContainerPriority
def fromContainerPrio : Nat := Gen.dpFromContainerPriority
def mainTable : Nat := 254
def tableOf (linkIndex : Nat) : Nat := Gen.routeTableBase + linkIndex
/-- 169.254.1.1 and fe80::1 -/
def linkIP : Fam → Nat
  | .v4 => 0xa9fe0101
  | .v6 => 0xfe800000000000000000000000000001

def Cfg.ip (c : Cfg) : Fam → Option (Nat × Nat)
  | .v4 => c.ip4
  | .v6 => c.ip6
def Cfg.gw (c : Cfg) : Fam → Option Nat
  | .v4 => c.gw4
  | .v6 => c.gw6
def Cfg.host (c : Cfg) : Fam → Option Nat
  | .v4 => c.host4
  | .v6 => c.host6
def Cfg.eniGw (c : Cfg) : Fam → Option Nat
  | .v4 => c.eniGw4
  | .v6 => c.eniGw6

/-- `ruleIf` of the multi-network case: traffic leaving through this interface uses its own table -/
def oifRule (c : Cfg) (link : Nat) : List Rule :=
  if c.multiNetwork then [{ prio := toContainerPrio, oif := some c.ifName, table := tableOf link }] else []

/-- per family, multi-network: source rule + default route in the per-link table -/
def multiNet (c : Cfg) (f : Fam) (link : Nat) (a : Nat) : List Rule × List Route :=
  if c.multiNetwork then
    ([{ prio := toContainerPrio, src := some (Pfx.host f a), table := tableOf link }],
     [{ table := tableOf link, dst := Pfx.default f, gw := c.gw f, dev := link, onlink := true }])
  else ([], [])

def extraRoutes (c : Cfg) (link : Nat) : List Route :=
  c.extra.map fun (d, gw) =>
    match gw with
    | some g => { dst := d, gw := some g, dev := link, onlink := true }
    | none => { dst := d, dev := link, scopeLink := true }

def maxMaskAddrs (c : Cfg) : List Addr :=
  (match c.ip4 with | some (a, _) => [{ pfx := Pfx.host .v4 a }] | none => []) ++
  (match c.ip6 with | some (a, _) => [{ pfx := Pfx.host .v6 a }] | none => [])

def subnetAddrs (c : Cfg) : List Addr :=
  (match c.ip4 with | some (a, n) => [{ pfx := ⟨.v4, a, n⟩ }] | none => []) ++
  (match c.ip6 with | some (a, n) => [{ pfx := ⟨.v6, a, n⟩ }] | none => [])

/-! ### policy route (veth) -/

def contPolicyFam (c : Cfg) (f : Fam) (link : Nat) : List Route × List Rule × List Neigh :=
  match c.ip f with
  | none => ([], [], [])
  | some (a, _) =>
    let dflt : List Route := if c.defaultRoute then [{ dst := Pfx.default f, gw := some (linkIP f), dev := link, onlink := true }] else []
    let linkRoute : List Route := if c.extra.isEmpty then [] else [{ dst := Pfx.host f (linkIP f), dev := link, scopeLink := true }]
    let (mr, mrt) := multiNet c f link a
    (dflt ++ linkRoute ++ mrt, mr, [{ fam := f, ip := linkIP f, dev := link, mac := .peer }])

def genContPolicy (c : Cfg) (link : Nat) : Conf :=
  let (r4, ru4, n4) := contPolicyFam c .v4 link
  let (r6, ru6, n6) := contPolicyFam c .v6 link
  { ifName := c.ifName, addrs := maxMaskAddrs c, routes := r4 ++ r6 ++ extraRoutes c link,
    rules := oifRule c link ++ ru4 ++ ru6, neighs := n4 ++ n6,
    sysctl6 := if c.ip6.isSome then some (c.ifName, true, false) else none }

def hostPeerFam (c : Cfg) (f : Fam) (veth table : Nat) : List Addr × List Route × List Rule :=
  match c.ip f with
  | none => ([], [], [])
  | some (a, _) =>
    ((if c.extra.isEmpty then [] else [{ pfx := Pfx.host f (linkIP f) }]),
     [{ dst := Pfx.host f a, dev := veth, scopeLink := true }],
     [{ prio := toContainerPrio, dst := some (Pfx.host f a), table := mainTable },
      { prio := fromContainerPrio, src := some (Pfx.host f a), table := table }])

def genHostPeerPolicy (c : Cfg) (veth : Nat) (vethName : String) (table : Nat) : Conf :=
  let (a4, r4, ru4) := hostPeerFam c .v4 veth table
  let (a6, r6, ru6) := hostPeerFam c .v6 veth table
  { addrs := a4 ++ a6, routes := r4 ++ r6, rules := ru4 ++ ru6,
    sysctl6 := if c.ip6.isSome then some (vethName, true, true) else none }

def genENIPolicy (c : Cfg) (eni : Nat) (eniName : String) (table : Nat) : Conf :=
  let gwOf (f : Fam) : Option Nat := if c.stripVlan then c.eniGw f else c.gw f
  let r4 : List Route := if c.ip4.isSome then [{ table := table, dst := Pfx.default .v4, gw := gwOf .v4, dev := eni, onlink := true }] else []
  let r6 : List Route := if c.ip6.isSome then
    [{ dst := Pfx.host .v6 ((gwOf .v6).getD 0), dev := eni, scopeLink := true },
     { table := table, dst := Pfx.default .v6, gw := gwOf .v6, dev := eni, onlink := true }] else []
  -- `Addrs: NewIPNetToMaxMask(cfg.HostIPSet)`: the node's host addresses (the plugin computes the
  -- host IP set for exactly the families of the allocation)
  let hostAddrs : List Addr :=
    (match c.host4 with | some a => [{ pfx := Pfx.host .v4 a }] | none => []) ++
    (match c.host6 with | some a => [{ pfx := Pfx.host .v6 a }] | none => [])
  { addrs := hostAddrs, routes := r4 ++ r6, sysctl6 := if c.ip6.isSome then some (eniName, true, true) else none, stripVlan := c.stripVlan }

/-- `PolicyRoute.Teardown`: which host rules are deleted for a pod address -/
def teardownSelects (f : Fam) (a : Nat) (r : Rule) : Bool :=
  (r.prio == fromContainerPrio && r.src == some (Pfx.host f a)) || (r.prio == toContainerPrio && r.dst == some (Pfx.host f a))

/-! ### ipvlan -/

def contIPVlanFam (c : Cfg) (f : Fam) (link : Nat) : List Addr × List Route × List Rule × List Neigh :=
  match c.ip f with
  | none => ([], [], [], [])
  | some (a, n) =>
    let addr : Addr := if c.stripVlan then { pfx := Pfx.host f a } else { pfx := ⟨f, a, n⟩ }
    let dflt : List Route := if c.defaultRoute then [{ dst := Pfx.default f, gw := c.gw f, dev := link, onlink := true }] else []
    let hostRoute : Route := { dst := Pfx.host f ((c.host f).getD 0), dev := link, scopeLink := true }
    let (mr, mrt) := multiNet c f link a
    let gwNeigh : List Neigh := if c.stripVlan then [{ fam := f, ip := (c.gw f).getD 0, dev := link, mac := .fixed }] else []
    ([addr], dflt ++ [hostRoute] ++ mrt, mr, [{ fam := f, ip := (c.host f).getD 0, dev := link, mac := .own }] ++ gwNeigh)

def genContIPVlan (c : Cfg) (link : Nat) : Conf :=
  let (a4, r4, ru4, n4) := contIPVlanFam c .v4 link
  let (a6, r6, ru6, n6) := contIPVlanFam c .v6 link
  { ifName := c.ifName, addrs := a4 ++ a6, routes := r4 ++ r6, rules := oifRule c link ++ ru4 ++ ru6, neighs := n4 ++ n6,
    sysctl6 := if c.ip6.isSome then some (c.ifName, true, false) else none }

def genSlaveIPVlan (c : Cfg) (link : Nat) : Conf :=
  let fam (f : Fam) : List Addr × List Route :=
    match c.ip f with
    | none => ([], [])
    | some (a, _) => ([{ pfx := Pfx.host f ((c.host f).getD 0), special := true }], [{ dst := Pfx.host f a, dev := link, scopeLink := true }])
  { addrs := (fam .v4).1 ++ (fam .v6).1, routes := (fam .v4).2 ++ (fam .v6).2 }

def genENIIPVlan (c : Cfg) (eniName : String) : Conf :=
  { sysctl6 := if c.ip6.isSome then some (eniName, true, true) else none, stripVlan := c.stripVlan }

/-! ### exclusive ENI and vlan (container side) -/

def contDirectFam (c : Cfg) (f : Fam) (link : Nat) (gwLinkRoute : Bool) : List Route × List Rule :=
  match c.ip f with
  | none => ([], [])
  | some (a, _) =>
    let gwRoute : List Route := if gwLinkRoute then [{ dst := Pfx.host f ((c.gw f).getD 0), dev := link, scopeLink := true }] else []
    let dflt : List Route := if c.defaultRoute then [{ dst := Pfx.default f, gw := c.gw f, dev := link, onlink := true }] else []
    let (mr, mrt) := multiNet c f link a
    (gwRoute ++ dflt ++ mrt, mr)

def genContExclusive (c : Cfg) (link : Nat) : Conf :=
  let (r4, ru4) := contDirectFam c .v4 link false
  let (r6, ru6) := contDirectFam c .v6 link true
  { ifName := c.ifName, addrs := if c.multiNetwork then subnetAddrs c else maxMaskAddrs c,
    routes := r4 ++ r6 ++ extraRoutes c link, rules := oifRule c link ++ ru4 ++ ru6,
    sysctl6 := if c.ip6.isSome then some (c.ifName, true, false) else none }

def genContVlan (c : Cfg) (link : Nat) : Conf :=
  let (r4, ru4) := contDirectFam c .v4 link false
  let (r6, ru6) := contDirectFam c .v6 link false
  { ifName := c.ifName, addrs := subnetAddrs c, routes := r4 ++ r6 ++ extraRoutes c link, rules := oifRule c link ++ ru4 ++ ru6,
    sysctl6 := if c.ip6.isSome then some (c.ifName, true, false) else none }

end Terway.Datapath
