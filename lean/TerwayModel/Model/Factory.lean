/-
The contract of the factory layer towards the pool (pkg/factory/aliyun `AssignNIPv4` / `AssignNIPv6`), as far as C07
needs it: the call to the cloud either is refused (nothing assigned) or assigns `n` addresses; after that the factory
waits for the instance metadata to list them and reports an error when they do not show up in time.  Whatever happens
after the cloud call, the addresses the cloud assigned are returned to the caller — the pool queues what comes back
together with an error for unassignment (Model/Pool.lean `faAssigned`), so nothing the cloud holds is left untracked.
-/
namespace Terway.Factory

structure AssignOut where
  /-- addresses returned to the pool -/
  returned : Nat
  err : Bool
  /-- addresses the cloud added to the interface -/
  added : Nat
  deriving DecidableEq, Repr

def assign (n : Nat) (apiRefused metaShows : Bool) : AssignOut :=
  if apiRefused then { returned := 0, err := true, added := 0 }
  else { returned := n, err := !metaShows, added := n }

end Terway.Factory
