/-
The contract of the factory layer towards the pool (pkg/factory/aliyun `AssignNIPv4` / `AssignNIPv6`), as far as C07
needs it: the call to the cloud either is refused (nothing assigned) or assigns `n` addresses; after that the factory
waits for the instance metadata to list them and reports an error when they do not show up in time.  Whatever happens
after the cloud call, the addresses the cloud assigned are returned to the caller — the pool queues what comes back
together with an error for unassignment (Model/Pool.lean `faAssigned`), so nothing the cloud holds is left untracked.
-/
namespace Terway.Factory

structure AssignOut where
  /-- addresses returned to the pool -/
  returned : Nat
  err : Bool
  /-- addresses the cloud added to the interface -/
  added : Nat
  deriving DecidableEq, Repr

def assign (n : Nat) (apiRefused metaShows : Bool) : AssignOut :=
  if apiRefused then { returned := 0, err := true, added := 0 }
  else { returned := n, err := !metaShows, added := n }

/-! ### the interfaces found attached at daemon start-up (`GetAttachedNetworkInterface`)

The metadata lists them; the cloud is asked for their types whenever a type feature (trunk, ERDMA) is still to be resolved or
interface tags are configured.  What the pool gets is each interface with two flags - trunk, RDMA - by which it later refuses to
dispose it. -/

inductive Ty where
  | secondary | trunk | rdma
  deriving DecidableEq, Repr

/-- `preferred`: index of the interface the daemon was told is its trunk (it resolves the trunk feature without asking) -/
def asksCloud (trunking erdma tags : Bool) (preferred : Option Nat) (n : Nat) : Bool :=
  let trunkOpen := trunking && !(match preferred with | some i => decide (i < n) | none => false)
  trunkOpen || erdma || tags

/-- flags (trunk, rdma) per listed interface, by index -/
def attached (trunking erdma tags : Bool) (preferred : Option Nat) (tys : List Ty) : List (Bool × Bool) :=
  if asksCloud trunking erdma tags preferred tys.length then
    tys.map fun t => (decide (t = .trunk), decide (t = .rdma))
  else
    (List.range tys.length).map fun i => (decide (preferred = some i), false)

/-! ### creating an interface when every candidate vSwitch is exhausted

The factory asks the vSwitch pool for a candidate, sends the create request there, and when the cloud refuses it as exhausted it
reports that to the pool (`Block`) and tries again; the pool does not offer a blocked vSwitch while its cache entry lives.  With `n`
candidates that all turn out exhausted, an order names each of those still open once, in the configured order, and then fails. -/

/-- one order: the candidates still open are tried in turn (and blocked); returns what was tried and what is blocked afterwards -/
def exhaustOrder (n : Nat) (blocked : List Nat) : List Nat × List Nat :=
  let tried := (List.range n).filter fun i => !blocked.contains i
  (tried, blocked ++ tried)

/-- two orders in a row: the create requests of each -/
def exhaustTwice (n : Nat) : List Nat × List Nat :=
  let (t1, b1) := exhaustOrder n []
  let (t2, _) := exhaustOrder n b1
  (t1, t2)

end Terway.Factory
