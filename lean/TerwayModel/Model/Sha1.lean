/-
Executable SHA-1 (FIPS 180-4), core Lean only.  Used by the model of
`pkg/link/veth.go:VethNameForPod` so that names are compared bit-for-bit with Go.
-/
namespace Terway.Sha1

structure Digest where
  h0 : UInt32
  h1 : UInt32
  h2 : UInt32
  h3 : UInt32
  h4 : UInt32
  deriving Repr, DecidableEq

def init : Digest := ⟨0x67452301, 0xEFCDAB89, 0x98BADCFE, 0x10325476, 0xC3D2E1F0⟩

@[inline] def rotl (x : UInt32) (n : UInt32) : UInt32 := (x <<< n) ||| (x >>> (32 - n))

/-- big-endian 32-bit word number `i` of a 64-byte block -/
def wordAt (blk : Array UInt8) (i : Nat) : UInt32 :=
  let b (j : Nat) : UInt32 := (blk.getD (4*i + j) 0).toUInt32
  (b 0 <<< 24) ||| (b 1 <<< 16) ||| (b 2 <<< 8) ||| b 3

def schedule (blk : Array UInt8) : Array UInt32 := Id.run do
  let mut w : Array UInt32 := Array.mkEmpty 80
  for i in [0:16] do
    w := w.push (wordAt blk i)
  for i in [16:80] do
    w := w.push (rotl (w.getD (i-3) 0 ^^^ w.getD (i-8) 0 ^^^ w.getD (i-14) 0 ^^^ w.getD (i-16) 0) 1)
  return w

def compress (d : Digest) (blk : Array UInt8) : Digest := Id.run do
  let w := schedule blk
  let mut a := d.h0
  let mut b := d.h1
  let mut c := d.h2
  let mut dd := d.h3
  let mut e := d.h4
  for i in [0:80] do
    let (f, k) : UInt32 × UInt32 :=
      if i < 20 then ((b &&& c) ||| ((~~~ b) &&& dd), 0x5A827999)
      else if i < 40 then (b ^^^ c ^^^ dd, 0x6ED9EBA1)
      else if i < 60 then ((b &&& c) ||| (b &&& dd) ||| (c &&& dd), 0x8F1BBCDC)
      else (b ^^^ c ^^^ dd, 0xCA62C1D6)
    let t := rotl a 5 + f + e + k + w.getD i 0
    e := dd
    dd := c
    c := rotl b 30
    b := a
    a := t
  return ⟨d.h0 + a, d.h1 + b, d.h2 + c, d.h3 + dd, d.h4 + e⟩

/-- message padding: 0x80, zeros to 56 mod 64, 64-bit big-endian bit length -/
def pad (msg : List UInt8) : Array UInt8 := Id.run do
  let len := msg.length
  let mut a : Array UInt8 := msg.toArray
  a := a.push 0x80
  let z := (64 + 56 - (len + 1) % 64) % 64
  for _ in [0:z] do
    a := a.push 0
  let bits := len * 8
  for i in [0:8] do
    a := a.push (UInt8.ofNat ((bits >>> (8 * (7 - i))) % 256))
  return a

def sum (msg : List UInt8) : Digest := Id.run do
  let p := pad msg
  let mut d := init
  for i in [0:p.size / 64] do
    d := compress d (p.extract (64*i) (64*i + 64))
  return d

def nibble (n : UInt32) : Char :=
  let v := n.toNat % 16
  if v < 10 then Char.ofNat (48 + v) else Char.ofNat (87 + v)

/-- eight lower-case hex characters of a word, most significant first -/
def hexWord (x : UInt32) : List Char :=
  [nibble (x >>> 28), nibble (x >>> 24), nibble (x >>> 20), nibble (x >>> 16),
   nibble (x >>> 12), nibble (x >>> 8), nibble (x >>> 4), nibble x]

def hex (d : Digest) : List Char :=
  hexWord d.h0 ++ hexWord d.h1 ++ hexWord d.h2 ++ hexWord d.h3 ++ hexWord d.h4

theorem hexWord_length (x : UInt32) : (hexWord x).length = 8 := rfl

theorem hex_length (d : Digest) : (hex d).length = 40 := by
  simp [hex, hexWord_length]

end Terway.Sha1
