/-
Model of the node-local ENI/IP pool (C01, C06, C07): pkg/eni/local.go, pkg/eni/types.go, pkg/eni/manager.go.

One `Slot` is one `eni.Local`.  Every transition below is one *lock region* of the real code (what a
goroutine does between taking and giving up the Local's lock, `cond.Wait` included), so a run of the
model is an interleaving of lock regions — the granularity at which the real goroutines interact.
Choices the code leaves to Go's map iteration order (which idle address is picked, which entries a
dispose marks) are explicit arguments that the step functions validate.

Addresses are numbers; IPv6 addresses are the numbers `≥ v6Base`.
-/
namespace Terway.Pool

def v6Base : Nat := 1000000

inductive IPSt where
  | valid | invalid | deleting
  deriving DecidableEq, Repr

structure IP where
  ip : Nat
  owner : Option String
  st : IPSt
  primary : Bool
  deriving DecidableEq, Repr

def IP.v6 (a : IP) : Bool := decide (v6Base ≤ a.ip)
def IP.inUse (a : IP) : Bool := a.owner.isSome
def IP.allocatable (a : IP) : Bool := a.st == .valid && !a.inUse

inductive ESt where
  | init | creating | inUse | deleting
  deriving DecidableEq, Repr

/-- what the factory worker remembers across its cloud calls (its local variables) -/
structure FaVars where
  v4n : Nat
  v6n : Nat
  deriving DecidableEq, Repr

structure Slot where
  eni : Option String
  status : ESt
  ips : List IP
  /-- queued request ids, oldest first.  A request whose worker is gone stays in the slice until the next
      `Len()` call on it (`AllocatingRequests.Len` drops cancelled requests as a side effect) -/
  alloc4 : List Nat
  alloc6 : List Nat
  /-- requests an address has been fetched for -/
  dang4 : List Nat
  dang6 : List Nat
  inhibit : Bool
  /-- how many addresses the factory worker has decided to ask for and has not yet received the answer
      for (its local variables `v4Count`, `v6Count`; for a new ENI: the create call's counts) -/
  plan4 : Nat := 0
  plan6 : Nat := 0
  deriving DecidableEq, Repr

def Slot.empty : Slot :=
  { eni := none, status := .init, ips := [], alloc4 := [], alloc6 := [], dang4 := [], dang6 := [], inhibit := false }

structure Cfg where
  cap : Nat
  batch : Nat
  en4 : Bool
  en6 : Bool
  deriving DecidableEq, Repr

structure Req where
  id : Nat
  pod : String
  nocache : Bool
  deriving DecidableEq, Repr

/-- a direct-path reply that has not been handed over yet (`go func(){ lock; commit }`) -/
structure Pending where
  req : Nat
  pod : String
  slot : Nat
  pick : List Nat
  /-- the picked addresses the pod did not hold before the request (released if the caller is gone) -/
  fresh : List Nat
  deriving DecidableEq, Repr


/-! ### per-family views -/

def fam (six : Bool) (l : List IP) : List IP := l.filter (·.v6 == six)

def Slot.allocQ (s : Slot) (six : Bool) : List Nat := if six then s.alloc6 else s.alloc4
def Slot.dangQ (s : Slot) (six : Bool) : List Nat := if six then s.dang6 else s.dang4
def Slot.setAlloc (s : Slot) (six : Bool) (q : List Nat) : Slot := if six then { s with alloc6 := q } else { s with alloc4 := q }
def Slot.setDang (s : Slot) (six : Bool) (q : List Nat) : Slot := if six then { s with dang6 := q } else { s with dang4 := q }

/-- the requests of a queue whose worker is still there (`dn` = the finished ones) -/
def live (dn : List Nat) (q : List Nat) : List Nat := q.filter (· ∉ dn)

/-- `AllocatingRequests.Len()` as a side effect: finished requests leave the slice -/
def Slot.purgeAlloc (s : Slot) (dn : List Nat) (six : Bool) : Slot := s.setAlloc six (live dn (s.allocQ six))
def Slot.purgeDang (s : Slot) (dn : List Nat) (six : Bool) : Slot := s.setDang six (live dn (s.dangQ six))

/-- `len(l.ipvX) + l.allocatingVX.Len() >= l.cap` -/
def Slot.full (c : Cfg) (dn : List Nat) (s : Slot) (six : Bool) : Bool :=
  decide (c.cap ≤ (fam six s.ips).length + (live dn (s.allocQ six)).length)

/-- `PeekAvailable(pod)` may return `a`: the pod's own entry if it has one, otherwise an allocatable one -/
def peekOK (l : List IP) (pod : String) (six : Bool) (a : IP) : Bool :=
  a ∈ l && a.v6 == six &&
  (if pod ≠ "" ∧ (fam six l).any (·.owner == some pod) then a.owner == some pod else a.allocatable)

/-- `PeekAvailable(pod)` returns nil -/
def peekNone (l : List IP) (pod : String) (six : Bool) : Bool :=
  !((fam six l).any fun a => (pod ≠ "" ∧ a.owner == some pod) || a.allocatable)

def setOwner (l : List IP) (ips : List Nat) (o : Option String) : List IP :=
  l.map fun a => if a.ip ∈ ips then { a with owner := o } else a

/-- `Set.Release(pod, ip)`: the owner is cleared only when it is `pod` -/
def releaseIPs (l : List IP) (pod : String) (ips : List Nat) : List IP :=
  l.map fun a => if a.ip ∈ ips ∧ a.owner = some pod then { a with owner := none } else a

def setSt (l : List IP) (ips : List Nat) (st : IPSt) : List IP :=
  l.map fun a => if a.ip ∈ ips then { a with st := st } else a

/-- no pod uses the interface and no request waits on it: neither queued for the factory (`allocating`) nor
    already ordered and waiting for its address (`danging`; counted since fix 4f8432b) -/
def Slot.canDispose (dn : List Nat) (s : Slot) : Bool :=
  s.eni.isNone || (!(s.ips.any (·.inUse)) && (live dn s.alloc4).isEmpty && (live dn s.alloc6).isEmpty &&
    (live dn s.dang4).isEmpty && (live dn s.dang6).isEmpty)

/-- the `Len()` calls `canDispose` makes (`&&` short-circuits) -/
def Slot.canDisposePurge (dn : List Nat) (s : Slot) : Slot :=
  if s.eni.isNone || s.ips.any (·.inUse) then s
  else
    let s1 := s.purgeAlloc dn false
    if !(live dn s.alloc4).isEmpty then s1 else
    let s2 := s1.purgeAlloc dn true
    if !(live dn s.alloc6).isEmpty then s2 else
    let s3 := s2.purgeDang dn false
    if !(live dn s.dang4).isEmpty then s3 else s3.purgeDang dn true

/-! ### `Local.Allocate` -/

inductive AllocOut where
  | rejected
  | direct (pick : List IP)
  | queued
  deriving DecidableEq, Repr

/-- the outcome `Local.Allocate` must have (up to the choice of `pick`); `pin` is the interface the request
    is pinned to (`""` = none) -/
def allocOutcomeOK (c : Cfg) (dn : List Nat) (s : Slot) (pod : String) (nocache : Bool) (pin : String) (out : AllocOut) : Bool :=
  let pinMiss := pin ≠ "" && s.eni.isSome && s.eni != some pin
  let none4 := nocache || peekNone s.ips pod false
  let none6 := nocache || peekNone s.ips pod true
  let full := (c.en4 && none4 && s.full c dn false) || (c.en6 && none6 && s.full c dn true)
  let need := (c.en4 && none4) || (c.en6 && none6)
  if s.status == .deleting || pinMiss || full || (need && s.inhibit) then out == .rejected
  else if need then out == .queued
  else match out with
    | .direct pick =>
      pick.map (·.v6) == (if c.en4 then [false] else []) ++ (if c.en6 then [true] else []) &&
      pick.all fun a => peekOK s.ips pod a.v6 a
    | _ => false

/-- the `Len()` calls of `Local.Allocate`: the IPv4 queue when no IPv4 address is at hand; the IPv6 queue
    likewise, unless the IPv4 check already returned `Full` -/
def Slot.allocPurge (c : Cfg) (dn : List Nat) (s : Slot) (pod : String) (nocache : Bool) (pin : String) : Slot :=
  let pinMiss := pin ≠ "" && s.eni.isSome && s.eni != some pin
  if s.status == .deleting || pinMiss then s else
  let none4 := nocache || peekNone s.ips pod false
  let none6 := nocache || peekNone s.ips pod true
  let s1 := if c.en4 && none4 then s.purgeAlloc dn false else s
  if c.en4 && none4 && s.full c dn false then s1
  else if c.en6 && none6 then s1.purgeAlloc dn true else s1

def Slot.allocate (c : Cfg) (dn : List Nat) (s : Slot) (r : Req) (pin : String) (out : AllocOut) : Slot :=
  let s := s.allocPurge c dn r.pod r.nocache pin
  match out with
  | .rejected => s
  | .direct pick => { s with ips := setOwner s.ips (pick.map (·.ip)) (some r.pod) }
  | .queued =>
    let none4 := r.nocache || peekNone s.ips r.pod false
    let none6 := r.nocache || peekNone s.ips r.pod true
    let s1 := if c.en4 && none4 then { s with alloc4 := s.alloc4 ++ [r.id] } else s
    if c.en6 && none6 then { s1 with alloc6 := s1.alloc6 ++ [r.id] } else s1

/-! ### workers -/

/-- `switchIPv4/6(request)`: leave the queue; if the request was still queued, one fetched-for request goes
    back to the queue (its address was taken by this one) -/
def Slot.switchQ (dn : List Nat) (s : Slot) (six : Bool) (r : Nat) : Slot :=
  if r ∈ s.allocQ six then
    let q := (s.allocQ six).filter (· ≠ r)
    match live dn (s.dangQ six) with
    | [] => (s.setAlloc six q).setDang six []
    | d :: ds => (s.setAlloc six (q ++ [d])).setDang six ds
  else s

/-- a worker leaves: both families' queues are switched (its request counts as finished from then on) -/
def Slot.workerExit (dn : List Nat) (s : Slot) (r : Nat) : Slot := (s.switchQ dn false r).switchQ dn true r

/-- `commit`: bind, then either hand over or (caller gone) release what this request bound (`fresh`); an
    address the pod held before the request stays the pod's -/
def commitIPs (l : List IP) (pod : String) (ips fresh : List Nat) (delivered : Bool) : List IP :=
  if delivered then setOwner l ips (some pod) else releaseIPs (setOwner l ips (some pod)) pod fresh

def freshOf (pick : List IP) (pod : String) : List Nat := (pick.filter (·.owner != some pod)).map (·.ip)

/-- `popNIPvXJobs(n)` -/
def Slot.pop (s : Slot) (six : Bool) (n : Nat) : Slot :=
  let q := s.allocQ six
  if n ≤ q.length then (s.setDang six (s.dangQ six ++ q.take n)).setAlloc six (q.drop n)
  else (s.setDang six (s.dangQ six ++ q)).setAlloc six []

/-! ### the factory worker -/

inductive Code where
  | none        -- an error without a recognised code
  | eniLimit    -- ErrEniPerInstanceLimitExceeded
  | ipExhausted -- InvalidVSwitchIDIPNotEnough / QuotaExceededPrivateIPAddress
  deriving DecidableEq, Repr

def Slot.onError (s : Slot) (c : Code) : Slot :=
  match c with
  | .none => s
  | _ => { s with inhibit := true }

/-- the worker has slept and decides what to ask the cloud for -/
inductive FaPlan where
  | create (v4n v6n : Nat)
  | assign (v4n v6n : Nat)
  deriving DecidableEq, Repr

def Slot.faPlan (c : Cfg) (dn : List Nat) (s : Slot) : FaPlan :=
  let n4 := (live dn s.alloc4).length
  let n6 := (live dn s.alloc6).length
  if s.eni.isNone then .create (min c.batch (max n4 1)) (min c.batch n6)
  -- addresses awaiting unassignment still occupy their slot: never beyond the free slots of the ENI
  else .assign (min (min c.batch n4) (c.cap - (fam false s.ips).length)) (min (min c.batch n6) (c.cap - (fam true s.ips).length))

/-- the `Len()` calls at the head of the factory worker's loop:
    `allocatingV4.Len() <= 0 && allocatingV6.Len() <= 0` -/
def Slot.faHeadPurge (dn : List Nat) (s : Slot) : Slot :=
  let s1 := s.purgeAlloc dn false
  if (live dn s.alloc4).isEmpty then s1.purgeAlloc dn true else s1

/-- ... and when it computes how much to ask for (both queues) -/
def Slot.faPlanPurge (dn : List Nat) (s : Slot) : Slot := (s.purgeAlloc dn false).purgeAlloc dn true

def newIPs (ips : List Nat) (primary : Option Nat) (st : IPSt) : List IP :=
  ips.map fun i => { ip := i, owner := none, st := st, primary := primary == some i }

/-- `s[ip] = &IP{...}`: an address put again replaces the entry -/
def putIPs (l : List IP) (new : List IP) : List IP :=
  l.filter (fun a => !(new.any (·.ip == a.ip))) ++ new

/-- result of `CreateNetworkInterface`: `(eni, primary, ipv4, ipv6, error)` -/
structure CreateRes where
  eni : Option String
  primary : Nat
  v4 : List Nat
  v6 : List Nat
  err : Option Code
  deriving DecidableEq, Repr

def Slot.created (s : Slot) (v4n v6n : Nat) (res : CreateRes) : Slot :=
  match res.err with
  | some c =>
    let s1 := s.onError c
    match res.eni with
    | some e => { s1 with eni := some e, status := .deleting }
    | none => { s1 with eni := none, status := .init }
  | none =>
    let s1 := ({ s with eni := res.eni }.pop false v4n).pop true v6n
    { s1 with ips := putIPs (putIPs s1.ips (newIPs res.v4 (some res.primary) .valid)) (newIPs res.v6 none .valid), status := .inUse }

/-- result of `AssignNIPv4/6`: addresses (possibly fewer than asked, possibly with an error) -/
structure AssignRes where
  ips : List Nat
  err : Option Code
  deriving DecidableEq, Repr

def Slot.assigned (s : Slot) (six : Bool) (res : AssignRes) : Slot :=
  match res.err with
  | some c => { s with ips := putIPs s.ips (newIPs res.ips none .deleting) }.onError c
  | none =>
    let s1 := s.pop six res.ips.length
    { s1 with ips := putIPs s1.ips (newIPs res.ips none .valid) }

/-! ### release, dispose, sync -/

def Slot.release (s : Slot) (eni pod : String) (ips : List Nat) : Slot :=
  if s.eni = some eni then { s with ips := releaseIPs s.ips pod ips } else s

/-- `IP.Dispose()`: the primary address is never marked -/
def disposeIPs (l : List IP) (ips : List Nat) : List IP :=
  l.map fun a => if a.ip ∈ ips ∧ !a.primary then { a with st := .deleting } else a

/-- how many addresses a `Dispose(n)` may mark in one family: all idle non-valid ones (step 2), plus up to
    `min(|not in use|, n)` valid idle ones (step 3; a pick of the primary address marks nothing) -/
def disposeMarksOK (l : List IP) (n : Nat) (marks : List Nat) : Bool :=
  let idleInvalid := l.filter fun a => !a.inUse && a.st == .invalid && !a.primary
  let candidates := l.filter fun a => !a.inUse && a.st == .valid && !a.primary
  let left := min (l.filter (!·.inUse)).length n
  let m3 := marks.filter fun i => candidates.any (·.ip == i)
  marks.all (fun i => idleInvalid.any (·.ip == i) || candidates.any (·.ip == i)) &&
  idleInvalid.all (fun a => a.ip ∈ marks) &&
  decide (m3.length ≤ left) &&
  ((l.any fun a => !a.inUse && a.st == .valid && a.primary) || decide (m3.length = min left candidates.length))

inductive DisposeOut where
  | nothing
  | wholeENI
  | marks (v4 v6 : List Nat)
  deriving DecidableEq, Repr

def Slot.disposeOK (dn : List Nat) (s : Slot) (n : Nat) (out : DisposeOut) : Bool :=
  if s.eni.isNone || s.status != .inUse then out == .nothing
  else if decide (max (fam false s.ips).length (fam true s.ips).length ≤ n) && s.canDispose dn then out == .wholeENI
  else match out with
    | .marks m4 m6 => disposeMarksOK (fam false s.ips) n m4 && disposeMarksOK (fam true s.ips) n m6 && m4.Nodup && m6.Nodup
    | _ => false

def Slot.dispose (dn : List Nat) (s : Slot) (n : Nat) (out : DisposeOut) : Slot :=
  let s := if s.eni.isSome && s.status == .inUse && decide (max (fam false s.ips).length (fam true s.ips).length ≤ n)
           then s.canDisposePurge dn else s
  match out with
  | .nothing => s
  | .wholeENI => { s with status := .deleting }
  | .marks m4 m6 => { s with ips := disposeIPs s.ips (m4 ++ m6) }

/-- what `Dispose(n)` returns to the balancer -/
def Slot.disposeRet (s : Slot) (n : Nat) (out : DisposeOut) : Nat :=
  match out with
  | .nothing => 0
  | .wholeENI => max (fam false s.ips).length (fam true s.ips).length
  | .marks _ _ => max (min ((fam false s.ips).filter (!·.inUse)).length n) (min ((fam true s.ips).filter (!·.inUse)).length n)

/-- periodic sync: a valid address the cloud no longer reports becomes invalid -/
def syncIPs (l : List IP) (remote : List Nat) : List IP :=
  l.map fun a => if a.st = .valid ∧ a.ip ∉ remote then { a with st := .invalid } else a

def Slot.sync (s : Slot) (remote : Option (List Nat)) : Slot :=
  if s.eni.isNone || s.status != .inUse then s
  else match remote with
    | none => s          -- the metadata call failed
    | some r => { s with ips := syncIPs s.ips r }

/-- `Usage()`: idle and in-use counts of the first enabled family -/
def Slot.usage (c : Cfg) (s : Slot) : Nat × Nat :=
  if s.eni.isNone || s.status != .inUse then (0, 0)
  else
    let l := if c.en4 then fam false s.ips else if c.en6 then fam true s.ips else []
    ((l.filter (!·.inUse)).length, (l.filter (·.inUse)).length)

/-! ### the dispose worker -/

inductive FdPlan where
  | wait
  | delete (eni : String)
  | unassign (v4 v6 : List Nat)
  deriving DecidableEq, Repr

def deletingOf (l : List IP) : List Nat := (l.filter (·.st == .deleting)).map (·.ip)

/-- what the dispose worker may do next (the batch is any sub-list of the deleting addresses of at most
    `batch` elements, all of them when they are fewer) -/
def Slot.fdPlanOK (c : Cfg) (dn : List Nat) (s : Slot) (p : FdPlan) : Bool :=
  match s.eni with
  | none => p == .wait
  | some e =>
    if s.status == .deleting then
      if s.canDispose dn then p == .delete e else p == .wait
    else
      let d4 := deletingOf (fam false s.ips)
      let d6 := deletingOf (fam true s.ips)
      if d4.isEmpty && d6.isEmpty then p == .wait
      else match p with
        | .unassign u4 u6 =>
          u4.all (· ∈ d4) && u6.all (· ∈ d6) && u4.Nodup && u6.Nodup &&
          decide (u4.length = min c.batch d4.length) && decide (u6.length = min c.batch d6.length)
        | _ => false

def removeIPs (l : List IP) (ips : List Nat) : List IP := l.filter fun a => a.ip ∉ ips

def Slot.deleted (s : Slot) (ok : Bool) : Slot :=
  if ok then { s with eni := none, ips := [], status := .init, inhibit := false } else s

def Slot.unassigned (s : Slot) (ips : List Nat) (ok : Bool) : Slot :=
  if ok then { s with ips := removeIPs s.ips ips } else s

end Terway.Pool

/-! ### the pool: slots, requests, pending replies, acknowledged allocations, cloud ledger -/
namespace Terway.Pool

def updateAt (l : List Slot) (i : Nat) (f : Slot → Slot) : List Slot :=
  match l, i with
  | [], _ => []
  | s :: rest, 0 => f s :: rest
  | s :: rest, n + 1 => s :: updateAt rest n f

structure Pool where
  cfg : Cfg
  slots : List Slot
  reqs : List Req
  /-- requests whose worker is gone (cancelled `workerCtx`) -/
  done : List Nat
  commits : List Pending
  /-- delivered and not yet released: `(pod, eni, ip)` -/
  acks : List (String × String × Nat)
  /-- what the cloud holds, as far as call results told the daemon: `(eni, ip)` -/
  ledger : List (String × Nat)
  deriving Repr

def slotAt (l : List Slot) (i : Nat) : Slot := (l[i]?).getD Slot.empty
def Pool.slot (p : Pool) (i : Nat) : Slot := slotAt p.slots i
def Pool.upd (p : Pool) (i : Nat) (f : Slot → Slot) : Pool := { p with slots := updateAt p.slots i f }
def Pool.req? (p : Pool) (r : Nat) : Option Req := p.reqs.find? (·.id == r)

/-- the balancer's local variables (`Manager.syncPool`) -/
structure Bal where
  idles : Nat
  inuses : Nat
  toDel : Int
  deriving DecidableEq, Repr

inductive Ev where
  /-- `Local.Allocate` of request `r` on slot `i` -/
  | allocate (i : Nat) (r : Req) (pin : String) (out : AllocOut)
  /-- the reply goroutine of a direct allocation -/
  | commit (r : Nat) (delivered : Bool)
  /-- a queued request's worker finds its addresses and leaves -/
  | workerServe (i r : Nat) (pick : List IP) (delivered : Bool)
  /-- a worker leaves without addresses (context done, or a pre-heat request whose address arrived) -/
  | workerExit (i r : Nat)
  /-- the factory worker at the head of its loop (woken up, or first run): only the `Len()` side effects -/
  | faHead (i : Nat)
  /-- the factory worker after its batching pause: it fixes how much to ask for; on a slot without ENI
      `status = creating` -/
  | faPlanned (i : Nat)
  | faCreated (i v4n v6n : Nat) (res : CreateRes)
  /-- `toHead`: the region runs on to the head of the loop (no IPv6 call follows) -/
  | faAssigned (i : Nat) (six : Bool) (res : AssignRes) (toHead : Bool)
  | release (i : Nat) (eni pod : String) (ips : List Nat)
  | dispose (i n : Nat) (out : DisposeOut)
  | sync (i : Nat) (remote : Option (List Nat))
  /-- the dispose worker at the head of its loop -/
  | fdHead (i : Nat)
  | fdDeleted (i : Nat) (ok : Bool)
  | fdUnassigned (i : Nat) (ips : List Nat) (ok : Bool) (toHead : Bool)
  /-- the cloud's own state changes: a call takes effect (addresses appear / disappear, an interface goes),
      or the cloud loses an address behind the daemon's back -/
  | cloud (eni : String) (add del : List Nat) (gone : Bool)
  deriving Repr

def addAcks (new old : List (String × String × Nat)) : List (String × String × Nat) :=
  new ++ old.filter (· ∉ new)

def ackOf (eni : Option String) (pod : String) (ips : List Nat) : List (String × String × Nat) :=
  match eni with
  | some e => ips.map fun i => (pod, e, i)
  | none => []

/-- after `popNIPvXJobs` every pre-heat request in the fetched-for lists is cancelled -/
def preheatIn (p : Pool) (s : Slot) : List Nat :=
  (s.dang4 ++ s.dang6).filter fun r => (p.reqs.find? (·.id == r)).any (·.nocache)

/-- the dispose worker's loop head: with an ENI in `deleting` state it evaluates `canDispose` -/
def Slot.fdHead (dn : List Nat) (s : Slot) : Slot :=
  if s.eni.isSome && s.status == .deleting then s.canDisposePurge dn else s

/-- one lock region; `none` = the real code cannot do this from this state -/
def Pool.step (p : Pool) : Ev → Option Pool
  | .allocate i r pin out =>
    let s := p.slot i
    -- requests of one pod do not overlap (the daemon's pending-pod guard, C04)
    if allocOutcomeOK p.cfg p.done s r.pod r.nocache pin out && !(p.commits.any (·.pod == r.pod)) then
      let p1 := { p.upd i (fun s => s.allocate p.cfg p.done r pin out) with reqs := if p.reqs.any (·.id == r.id) then p.reqs else r :: p.reqs }
      match out with
      | .direct pick => some { p1 with commits := { req := r.id, pod := r.pod, slot := i, pick := pick.map (·.ip), fresh := freshOf pick r.pod } :: p1.commits }
      | _ => some p1
    else none
  | .commit r delivered =>
    match p.commits.find? (·.req == r) with
    | some c =>
      let p1 := p.upd c.slot fun s => { s with ips := commitIPs s.ips c.pod c.pick c.fresh delivered }
      some { p1 with commits := p.commits.filter (·.req != r),
                     acks := if delivered then addAcks (ackOf (p.slot c.slot).eni c.pod c.pick) p.acks else p.acks }
    | none => none
  | .workerServe i r pick delivered =>
    match p.req? r with
    | some rq =>
      let s := p.slot i
      let want := (if p.cfg.en4 then [false] else []) ++ (if p.cfg.en6 then [true] else [])
      if !rq.nocache && r ∉ p.done && pick.map (·.v6) == want && pick.all (fun a => peekOK s.ips rq.pod a.v6 a) then
        let ips : List Nat := pick.map IP.ip
        let p1 := p.upd i fun s => ({ s with ips := commitIPs s.ips rq.pod ips (freshOf pick rq.pod) delivered }).workerExit p.done r
        some { p1 with done := r :: p.done, acks := if delivered then addAcks (ackOf s.eni rq.pod ips) p.acks else p.acks }
      else none
    | none => none
  | .workerExit i r =>
    if r ∈ p.done && !((p.req? r).any (·.nocache)) then none
    else some { p.upd i (fun s => s.workerExit p.done r) with done := if r ∈ p.done then p.done else r :: p.done }
  | .faHead i => some (p.upd i fun s => s.faHeadPurge p.done)
  | .faPlanned i =>
    let s := p.slot i
    -- the status was checked before the pause, not after it: with an ENI the worker goes on whatever
    -- the status has become meanwhile
    let (n4, n6) := match s.faPlan p.cfg p.done with
      | .create a b => (a, b)
      | .assign a b => (a, b)
    if s.eni.isSome then some (p.upd i fun s => { s.faPlanPurge p.done with plan4 := n4, plan6 := n6 })
    else if s.status == .init || s.status == .inUse then
      some (p.upd i fun s => { s.faPlanPurge p.done with status := .creating, plan4 := n4, plan6 := n6 })
    else none
  | .faCreated i v4n v6n res =>
    let s := p.slot i
    -- the cloud hands out an interface id no slot has, and at most as many addresses as were asked for
    if s.status == .creating && s.eni.isNone && v4n == s.plan4 && v6n == s.plan6 &&
        decide (res.v4.length ≤ v4n) && decide (res.v6.length ≤ v6n) && (res.v4 ++ res.v6).Nodup &&
        res.v4.all (· < v6Base) && res.v6.all (v6Base ≤ ·) && (res.err.isSome || res.eni.isSome) &&
        (match res.eni with | some e => p.slots.all (·.eni != some e) | none => true) then
      let s1 := { s.created v4n v6n res with plan4 := 0, plan6 := 0 }
      let dn := preheatIn p s1 ++ p.done
      some { p.upd i (fun _ => s1.faHeadPurge dn) with done := dn }
    else none
  | .faAssigned i six res toHead =>
    let s := p.slot i
    match s.eni with
    | some _ =>
      -- the cloud hands out addresses of the asked family that the interface does not have yet, at most as
      -- many as were asked for
      if decide (res.ips.length ≤ (if six then s.plan6 else s.plan4)) && res.ips.Nodup &&
          res.ips.all (fun ip => decide (v6Base ≤ ip) == six && !(s.ips.any (·.ip == ip))) then
        let s0 := s.assigned six res
        let s1 := if six then { s0 with plan6 := 0 } else { s0 with plan4 := 0 }
        let dn := preheatIn p s1 ++ p.done
        some { p.upd i (fun _ => if toHead then s1.faHeadPurge dn else s1) with done := dn }
      else none
    | none =>
      -- the interface was deleted while the call was in flight (its requests had been cancelled): the call can
      -- only have failed; the error is handled, nothing else changes
      if res.ips.isEmpty && res.err.isSome then
        let s0 := s.assigned six res
        let s1 := if six then { s0 with plan6 := 0 } else { s0 with plan4 := 0 }
        let dn := preheatIn p s1 ++ p.done
        some { p.upd i (fun _ => if toHead then s1.faHeadPurge dn else s1) with done := dn }
      else none
  | .release i eni pod ips =>
    -- the slot that has the ENI takes it; requests of one pod do not overlap (the daemon's pending-pod
    -- guard, C04): no release while a reply to the same pod is still on its way
    if (p.slot i).eni == some eni && !(p.commits.any (·.pod == pod)) then
      some { p.upd i (fun s => s.release eni pod ips) with
             acks := p.acks.filter fun a => !(a.1 == pod && a.2.1 == eni && a.2.2 ∈ ips) }
    else none
  | .dispose i n out =>
    if (p.slot i).disposeOK p.done n out then some (p.upd i fun s => s.dispose p.done n out) else none
  | .sync i remote => some (p.upd i fun s => s.sync remote)
  | .fdHead i => some (p.upd i fun s => s.fdHead p.done)
  | .fdDeleted i ok =>
    let s := p.slot i
    match s.eni with
    | some _ =>
      if s.status == .deleting && s.canDispose p.done then some (p.upd i fun s => (s.deleted ok).fdHead p.done) else none
    | none => none
  | .fdUnassigned i ips ok toHead =>
    let s := p.slot i
    match s.eni with
    | some _ =>
      -- only addresses marked for deletion, that nobody holds, and never the primary one
      if ips.all (fun ip => s.ips.any fun a => a.ip == ip && a.st == .deleting && !a.inUse && !a.primary) then
        some (p.upd i fun s => if toHead then (s.unassigned ips ok).fdHead p.done else s.unassigned ips ok)
      else none
    | none => none
  | .cloud eni add del gone =>
    some { p with ledger := if gone then p.ledger.filter (·.1 != eni)
                            else add.map (fun ip => (eni, ip)) ++ p.ledger.filter fun x => !(x.1 == eni && (x.2 ∈ del || x.2 ∈ add)) }

def Pool.init (cfg : Cfg) (n : Nat) : Pool :=
  { cfg := cfg, slots := List.replicate n Slot.empty, reqs := [], done := [], commits := [], acks := [], ledger := [] }

/-- all events accepted in order -/
def Pool.run (p : Pool) : List Ev → Option Pool
  | [] => some p
  | e :: rest => (p.step e).bind (·.run rest)

/-! ### the balancer (`Manager.syncPool`) arithmetic -/

/-- surplus to dispose and deficit to pre-heat, from the summed usage -/
def balance (idles inuses maxIdles minIdles total : Nat) : Nat × Nat :=
  let toDel := idles - maxIdles
  let toAdd := if idles + inuses ≥ total then 0 else minIdles - idles
  (toDel, toAdd)

end Terway.Pool
