facts = [
 ('CSort','interface ids in the cloud are strictly increasing (ids are never reused)', 'Sorted s.cloud'),
 ('CLt','every interface id is below the next fresh one', '∀ en ∈ s.cloud, en.id < s.nextEni'),
 ('RLt','so is every id a record names', '∀ c, s.rcd = some c → ∀ a ∈ c.allocs, a.eni < s.nextEni'),
 ('PMade','interfaces the pod controller has created and not yet recorded: brand new (no clock step since) and named by no record',
  '∀ u made f, s.p = .creating u made f → ∀ a ∈ made, a.eni < s.nextEni ∧ (∀ en ∈ s.cloud, en.id = a.eni → en.ctime = s.now) ∧ (∀ c, s.rcd = some c → ∀ b ∈ c.allocs, b.eni ≠ a.eni)'),
 ('PRoll','interfaces left to roll back are named by no record',
  '∀ rem, s.p = .rollback rem → ∀ e ∈ rem, e < s.nextEni ∧ ∀ c, s.rcd = some c → ∀ b ∈ c.allocs, b.eni ≠ e'),
 ('LCandD',"the leak collector's candidates after its cloud listing: ours, older than the grace period, not just created by the pod controller",
  '∀ cands u, s.l = .desc cands u → ∀ e ∈ cands, e < s.nextEni ∧ (∀ en ∈ s.cloud, en.id = e → en.ours = true ∧ en.ctime + grace ≤ s.now) ∧ (∀ u2 made f, s.p = .creating u2 made f → ∀ a ∈ made, a.eni ≠ e)'),
 ('LCandL',"the same after the record listing",
  '∀ cands u, s.l = .listed cands u → ∀ e ∈ cands, e < s.nextEni ∧ (∀ en ∈ s.cloud, en.id = e → en.ours = true ∧ en.ctime + grace ≤ s.now) ∧ (∀ u2 made f, s.p = .creating u2 made f → ∀ a ∈ made, a.eni ≠ e)'),
 ('LList','after the listing: named by no record',
  '∀ cands u, s.l = .listed cands u → ∀ e ∈ cands, ∀ c, s.rcd = some c → ∀ b ∈ c.allocs, b.eni ≠ e'),
]
names=[f[0] for f in facts]
actors = ['stepEnv','stepP','stepE','stepG','stepL']
helpers = open(__import__('os').path.join(__import__('os').path.dirname(__file__), 'leak_helpers.lean.txt')).read().split('namespace Terway.PE',1)[1].rsplit('end Terway.PE',1)[0]
out=['''import TerwayModel.Proofs.PodEniSafe
/-
Interface-side invariant of the PodENI lifecycle model: ids are fresh, what the pod controller has just
created is young and unrecorded, and the leak collector's candidates stay ours, old and unreferenced.
(Generated layout: one definition per fact, one preservation lemma per fact and actor.)
-/
namespace Terway.PE
''' + helpers + '''
def Sorted (c : List Eni) : Prop := (c.map (·.id)).Pairwise (· < ·)

theorem Sorted.snoc {l : List Eni} {e : Eni} (h : Sorted l) (hl : ∀ x ∈ l, x.id < e.id) : Sorted (l ++ [e]) := by
  simp only [Sorted, List.map_append, List.map_cons, List.map_nil, List.pairwise_append, List.pairwise_cons, List.Pairwise.nil, List.mem_map, List.mem_cons, List.not_mem_nil, or_false, forall_exists_index, and_imp,
    forall_apply_eq_imp_iff₂]
  exact ⟨h, by simp, fun a ha b hb => hb ▸ hl a ha⟩

theorem Sorted.setAtt {c : List Eni} (h : Sorted c) (id : Nat) (a : Option Nat) : Sorted (setAtt c id a) := by
  simpa [Sorted, setAtt_ids] using h

theorem Sorted.remove {c : List Eni} (h : Sorted c) (id : Nat) : Sorted (remove c id) :=
  List.Pairwise.sublist (remove_ids_sublist c id) h

theorem Sorted.inj {c : List Eni} (h : Sorted c) {a b : Eni} (ha : a ∈ c) (hb : b ∈ c) (hab : a.id = b.id) : a = b :=
  sorted_inj h ha hb hab

theorem mem_stamp {made : List Alloc} {allocs : List (Nat × Strat)} {a : Alloc} (h : a ∈ stamp made allocs) :
    ∃ a0 ∈ made, a.eni = a0.eni ∧ a.ip = a0.ip := by
  simp only [stamp, List.mem_map] at h
  obtain ⟨a0, h0, rfl⟩ := h
  exact ⟨a0, h0, rfl, rfl⟩

theorem grace_pos : 0 < grace := by decide

theorem mem_erase_of {l : List Nat} {a b : Nat} (h : a ∈ l.erase b) : a ∈ l := List.mem_of_mem_erase h

theorem leakCand_iff (now : Nat) (e : Eni) : leakCand now e = true ↔ e.ours = true ∧ e.ctime + grace ≤ now := by
  simp [leakCand]
''']
for n,doc,body in facts:
    out.append(f'/-- {doc} -/\ndef {n} (s : St) : Prop :=\n  {body}\n')
out.append('structure Inv3 (s : St) : Prop where')
for n in names:
    out.append(f'  f{n} : {n} s')
out.append('\ntheorem Inv3.init : Inv3 {} := by\n  constructor <;> simp [' + ', '.join(names) + ', Sorted]\n')
obt='⟨' + ', '.join(f'c{i}' for i in range(len(names))) + '⟩'
allf=', '.join(names)
for n,_,_ in facts:
    for a in actors:
        simp = 'deleteRec_some _ _ (by assumption : s.rcd = some _), bindRec, ' if a in ('stepP','stepE') else ''
        hints = 'pStatusOK_true, pAfterDel, pAfterCre, mem_stamp, grace_pos, List.mem_filter, List.mem_map, Sorted.snoc, Sorted.setAtt, Sorted.remove, Sorted.inj, mem_setAtt, mem_remove, stamp_enis, mem_erase_of, leakCand_iff, Rec.enis, PPc.inCreate, markDel_allocs, ' + allf
        out.append(f'''set_option maxHeartbeats 4000000 in
theorem {n}.{a} {{s t : St}} {{ev : Ev}} (h : Inv3 s) (hs : PE.{a} s ev = some t) : {n} t := by
  obtain {obt} := h
  revert hs
  fun_cases PE.{a} s ev <;> intro hs <;> (first | cases hs | skip)
  all_goals (try simp only [{simp}bump_some _ _ _ (by assumption : s.rcd = some _)])
  all_goals (first | assumption | grind [{hints}])
''')
for a in actors:
    out.append(f'theorem Inv3.{a} {{s t : St}} {{ev : Ev}} (h : Inv3 s) (hs : PE.{a} s ev = some t) : Inv3 t :=\n  ⟨' + ', '.join(f'{n}.{a} h hs' for n in names) + '⟩\n')
out.append('''theorem Inv3.step {s t : St} {ev : Ev} (h : Inv3 s) (hs : PE.step s ev = some t) : Inv3 t := by
  cases ev <;> simp only [PE.step] at hs <;>
    first | exact h.stepEnv hs | exact h.stepP hs | exact h.stepE hs | exact h.stepG hs | exact h.stepL hs | exact (stepD_eq hs) ▸ h

end Terway.PE
''')
print('\n'.join(out))
