# generates Proofs/PodEniProps.lean: per-actor step lemmas behind the property theorems of C10 / C11
ALL = ['stepEnv','stepP','stepE','stepG','stepL']
props = [
 ('Edges', ALL, '∀ r r\', s.rcd = some r → t.rcd = some r\' → r\'.phase = r.phase ∨ documented r.phase r\'.phase ∨ undocumented r.phase r\'.phase',
  'documented, undocumented, Phase.busy, cases Phase'),
 ('Removed', ALL, '∀ r, s.rcd = some r → t.rcd = none → r.del = true', ''),
 ('DelReq', ALL, '∀ r r\', s.rcd = some r → t.rcd = some r\' → r.del = false → r\'.del = true → (ev = .eDeleteRec .ok ∧ r.phase = .deleting) ∨ (ev = .pDeleteRec .ok ∧ r.fixed = false ∧ NotRunning s r.uid)', ''),
 ('NoPull', ALL, '∀ id, pulls ev = some id → ¬ Protected s id', 'pulls, Protected, List.contains_iff_mem, List.mem_map'),
 ('Leaked', ALL, 't.leaked ≠ s.leaked → failedDelete ev = true', 'failedDelete'),
 ('AllocsSame', ALL, '∀ r r\', s.rcd = some r → t.rcd = some r\' → r\'.allocs = r.allocs', ''),
 ('BindAtt', ['stepE'], '∀ ver inst, ev = .eStatusBind ver inst .ok → ∀ c, s.rcd = some c → ∀ a ∈ c.allocs, attachedTo s.cloud a.eni inst = true', 'List.all_eq_true, List.mem_map'),
 ('IpSame', ALL, '∀ en ∈ s.cloud, ∀ en\' ∈ t.cloud, en\'.id = en.id → en\'.ip = en.ip', 'List.mem_append'),
 ('Ttl', ['stepG'], '∀ ver, ev = .gReap ver .ok → ∀ c, s.rcd = some c → ∀ a ∈ c.allocs, a.fixed = true → ∃ d, a.strat = .ttl d ∧ ∀ o, s.obs = some o → o + d ≤ s.now', 'keep_false, Alloc.fixed, List.any_eq_true'),
 ('OnlyG', ALL, '∀ c c\', s.rcd = some c → c.fixed = true → t.rcd = some c\' → ((c\'.phase = .deleting ∧ c.phase ≠ .deleting) → ∃ ver, ev = .gReap ver .ok) ∧ ((c\'.del = true ∧ c.del = false) → c.phase = .deleting)', 'cases Phase'),
 ('LeakReap', ['stepL'], '∀ id ok, (ev = .lDelete id ok ∨ ev = .lDetach id ok) → (∀ en ∈ s.cloud, en.id = id → en.ours = true ∧ en.ctime + grace ≤ s.now) ∧ (∀ c, s.rcd = some c → id ∉ c.enis)', 'List.contains_iff_mem, List.mem_map'),
]
out=['''import TerwayModel.Proofs.PodEniObs
/-
Per-actor step lemmas behind the property theorems of C10 and C11 (Props/C10.lean, Props/C11.lean): each says
what one accepted event of one actor can do to a state that satisfies the invariants.
(Generated layout: one lemma per statement and actor.)
-/
namespace Terway.PE

/-- the documented life cycle (pkg/apis/network.alibabacloud.com/v1beta1/types.go:113-151):
    initial → Bind, Bind → Detaching → Unbind → Binding → Bind, anything → Deleting -/
def documented (a b : Phase) : Prop :=
  (a = .initial ∧ b = .bind) ∨ (a = .bind ∧ b = .detaching) ∨ (a = .detaching ∧ b = .unbind) ∨
  (a = .unbind ∧ b = .binding) ∨ (a = .binding ∧ b = .bind) ∨ b = .deleting

/-- the two edges the code takes beyond the diagram (known findings `C10/phase/I-to-Dt`, `C10/phase/Bg-to-Dt`):
    a fixed-address record whose pod goes away before the (re-)attach completed is sent to Detaching -/
def undocumented (a b : Phase) : Prop :=
  (a = .initial ∧ b = .detaching) ∨ (a = .binding ∧ b = .detaching)

/-- a roll-back delete that failed -/
def failedDelete : Ev → Bool
  | .pCloudDelete _ ok => !ok
  | _ => false

/-- the cloud calls that take an interface away: detach and delete, by any of the actors -/
def pulls : Ev → Option Nat
  | .eDetach id true => some id
  | .eCloudDelete id true => some id
  | .lDelete id true => some id
  | .lDetach id true => some id
  | .pCloudDelete id true => some id
  | _ => none

/-- interface `id` is named by the record of a pod instance that exists and has not finished -/
def Protected (s : St) (id : Nat) : Prop :=
  ∃ c q, s.rcd = some c ∧ id ∈ c.enis ∧ s.pod = some q ∧ q.uid = c.uid ∧ q.exited = false

theorem allocKeeps_false {ls : Option Nat} {now : Nat} {st : Strat} (h : allocKeeps ls now st = false) :
    st = .elastic ∨ ∃ d, st = .ttl d ∧ (ls = none ∨ ∃ t, ls = some t ∧ t + d ≤ now) := by
  cases st with
  | elastic => exact .inl rfl
  | never => simp [allocKeeps] at h
  | bad => simp [allocKeeps] at h
  | ttl d =>
    refine .inr ⟨d, rfl, ?_⟩
    cases ls with
    | none => exact .inl rfl
    | some t => simp [allocKeeps] at h; exact .inr ⟨t, rfl, h⟩

theorem keep_false {allocs : List Alloc} {ls : Option Nat} {now : Nat} (h : keep allocs ls now = false) :
    ∀ a ∈ allocs, a.strat = .elastic ∨ ∃ d, a.strat = .ttl d ∧ (ls = none ∨ ∃ t, ls = some t ∧ t + d ≤ now) := by
  intro a ha
  apply allocKeeps_false
  simp only [keep, List.any_eq_false] at h
  simpa using h a ha
''']
hints0 = 'SnapOK, pStatusOK_true, NotRunning, Rec.enis, Rec.fixed, mem_enis, mem_setAtt, mem_remove, Sorted.inj, markDel_uid, markDel_phase, markDel_allocs, markDel_del, markDel_ver, markDel_of_del, markDel_fixed, markDel_lastSeen, pAfterDel, pAfterCre, GPend, PodSeen.requires, ' \
  'J2, J3, PDel, PCre, PUpd, PRec, EDet, EAtt, EDel, GSeen, CSort, CLt, RLt, PMade, PRoll, LCandD, LCandL, LList, ObsLe, ObsLs, PUpdDl, PDelNF, Acc'
for name, actors, concl, hints in props:
    pre = "  all_goals (intro r0 r0' hr0 hr0'; rcases Phase.cases r0.phase with hp0 | hp0 | hp0 | hp0 | hp0 | hp0)\n" if name == 'Edges' else ''
    for a in actors:
        simp = 'deleteRec_some _ _ (by assumption : s.rcd = some _), bindRec, ' if a in ('stepP','stepE') else ''
        h = hints0 + (', ' + hints if hints else '')
        out.append(f'''set_option maxHeartbeats 4000000 in
theorem {name}.{a} {{s t : St}} {{ev : Ev}} (hI : Inv s) (hs : PE.{a} s ev = some t) :
    {concl} := by
  obtain ⟨⟨a1, a2, a3, a4, a4b, a5, a5b, a5c, a6, a6b, a7, a7b⟩, ⟨b0, b1, b2, b3, b4, b5, b6, b7, b8, b9⟩,
    ⟨c0, c1, c2, c3, c4, c5, c6, c7⟩, ⟨d0, d1, d2, d3, d4⟩⟩ := hI
  revert hs
  fun_cases PE.{a} s ev <;> intro hs <;> (first | cases hs | skip)
  all_goals (try simp only [{simp}bump_some _ _ _ (by assumption : s.rcd = some _)])
{pre}  all_goals grind [{h}]
''')
    if actors == ALL:
        out.append(f'''theorem {name}.stepD {{s t : St}} {{ev : Ev}} (hI : Inv s) (hs : PE.stepD s ev = some t) :
    {concl} := by
  unfold PE.stepD at hs
  split at hs
  · split at hs
    · cases hs
      have hcs := hI.i3.fCSort
      grind [pulls, failedDelete, documented, undocumented, Sorted.inj, CSort]
    · cases hs
  · cases hs
''')
        out.append(f'''theorem {name}.step {{s t : St}} {{ev : Ev}} (hI : Inv s) (hs : PE.step s ev = some t) :
    {concl} := by
  cases ev <;> simp only [PE.step] at hs <;>
    first | exact {name}.stepEnv hI hs | exact {name}.stepP hI hs | exact {name}.stepE hI hs | exact {name}.stepG hI hs | exact {name}.stepL hI hs | exact {name}.stepD hI hs
''')
out.append('end Terway.PE\n')
print('\n'.join(out))
