facts = [
 ('ObsLe','the last observation is not in the future', '∀ o, s.obs = some o → o ≤ s.now'),
 ('ObsLs','the recorded lastSeen of a fixed record is not older than the last observation, unless the collector is about to write it',
  '∀ c o, s.rcd = some c → c.fixed = true → s.obs = some o → (∃ t, c.lastSeen = some t ∧ o ≤ t) ∨ GPend s'),
 ('PUpdDl','the pod controller only marks a record without fixed address Deleting',
  '∀ v, s.p = .upd v .deleting → ∀ c, s.rcd = some c → c.ver = v → c.fixed = false'),
 ('PDelNF','the pod controller only deletes a record without fixed address',
  's.p = .delRec → ∀ c, s.rcd = some c → c.fixed = false'),
 ('Acc','every interface is somebody else\'s, named by the record, held by the pod controller\'s reconciliation in flight, or was left by a failed roll-back deletion (stated as: it cannot be in none of these)',
  '∀ en ∈ s.cloud, en.id ∉ s.ext → en.id ∉ s.leaked → (∀ c, s.rcd = some c → en.id ∉ c.enis) → (∀ rem, s.p = .rollback rem → en.id ∉ rem) → (∀ u made f, s.p = .creating u made f → en.id ∉ made.map (·.eni)) → False'),
]
names=[f[0] for f in facts]
actors = ['stepEnv','stepP','stepE','stepG','stepL']
out=['''import TerwayModel.Proofs.PodEniLeak
/-
Observation times (C11 TTL), who may reap a fixed record, and the accounting of created interfaces (C10 roll-back).
(Generated layout: one definition per fact, one preservation lemma per fact and actor.)
-/
namespace Terway.PE

/-- the record collector has seen the pod of a fixed record and has not written lastSeen yet -/
def GPend (s : St) : Prop := ∃ r p ne, s.g = .seen r p ne ∧ p.requires ne = true ∧ r.fixed = true

theorem absent_iff {c : List Eni} {id : Nat} : absent c id = true ↔ ∀ en ∈ c, en.id ≠ id := by
  simp [absent, find, List.find?_eq_none]

theorem mem_erase_ne {l : List Nat} {a b : Nat} (h : a ∈ l) (hab : a ≠ b) : a ∈ l.erase b :=
  (List.mem_erase_of_ne hab).mpr h

theorem mem_enis {r : Rec} {id : Nat} : id ∈ r.enis ↔ ∃ a ∈ r.allocs, a.eni = id := by
  simp [Rec.enis]

theorem mem_stamp_of {made : List Alloc} {allocs : List (Nat × Strat)} {a0 : Alloc} (h : a0 ∈ made) :
    ∃ a ∈ stamp made allocs, a.eni = a0.eni := by
  refine ⟨{ a0 with strat := (allocs.lookup a0.eni).getD .elastic }, ?_, rfl⟩
  simp only [stamp, List.mem_map]
  exact ⟨a0, h, rfl⟩

@[simp] theorem markDel_lastSeen (r : Rec) (v : Nat) : (markDel r v).lastSeen = r.lastSeen := by unfold markDel; split <;> rfl
@[simp] theorem markDel_fixed (r : Rec) (v : Nat) : (markDel r v).fixed = r.fixed := by simp [Rec.fixed]

theorem fixed_stamp (made : List Alloc) (allocs : List (Nat × Strat)) (a : Alloc) (h : a ∈ stamp made allocs) :
    ∃ a0 ∈ made, a.eni = a0.eni := by
  obtain ⟨a0, h0, h1, _⟩ := mem_stamp h
  exact ⟨a0, h0, h1⟩
''']
for n,doc,body in facts:
    out.append(f'/-- {doc} -/\ndef {n} (s : St) : Prop :=\n  {body}\n')
out.append('structure Inv4 (s : St) : Prop where')
for n in names:
    out.append(f'  f{n} : {n} s')
out.append('\ntheorem Inv4.init : Inv4 {} := by\n  constructor <;> simp [' + ', '.join(names) + ']\n')
obt='⟨' + ', '.join(f'd{i}' for i in range(len(names))) + '⟩'
allf=', '.join(names)
for n,_,_ in facts:
    for a in actors:
        simp = 'deleteRec_some _ _ (by assumption : s.rcd = some _), bindRec, ' if a in ('stepP','stepE') else ''
        hints = 'SnapOK, pStatusOK_true, List.all_eq_true, stamp_enis, Rec.enis, markDel_lastSeen, markDel_fixed, GPend, PodSeen.requires, Rec.fixed, pAfterDel, pAfterCre, mem_stamp, mem_setAtt, mem_remove, mem_erase_of, mem_erase_ne, absent_iff, mem_enis, markDel_allocs, markDel_ver, markDel_of_del, ' + allf
        out.append(f'''set_option maxHeartbeats 4000000 in
theorem {n}.{a} {{s t : St}} {{ev : Ev}} (h1 : Inv1 s) (h : Inv4 s) (hs : PE.{a} s ev = some t) : {n} t := by
  obtain ⟨a1, a2, a3, a4, a4b, a5, a5b, a5c, a6, a6b, a7, a7b⟩ := h1
  obtain {obt} := h
  revert hs
  fun_cases PE.{a} s ev <;> intro hs <;> (first | cases hs | skip)
  all_goals (try simp only [{simp}bump_some _ _ _ (by assumption : s.rcd = some _)])
  all_goals (first | assumption | grind [{hints}])
''')
for a in actors:
    out.append(f'theorem Inv4.{a} {{s t : St}} {{ev : Ev}} (h1 : Inv1 s) (h : Inv4 s) (hs : PE.{a} s ev = some t) : Inv4 t :=\n  ⟨' + ', '.join(f'{n}.{a} h1 h hs' for n in names) + '⟩\n')
out.append('''theorem Inv4.step {s t : St} {ev : Ev} (h1 : Inv1 s) (h : Inv4 s) (hs : PE.step s ev = some t) : Inv4 t := by
  cases ev <;> simp only [PE.step] at hs <;>
    first | exact h.stepEnv h1 hs | exact h.stepP h1 hs | exact h.stepE h1 hs | exact h.stepG h1 hs | exact h.stepL h1 hs | exact (stepD_eq hs) ▸ h

/-- all invariants together -/
structure Inv (s : St) : Prop where
  i1 : Inv1 s
  i2 : Inv2 s
  i3 : Inv3 s
  i4 : Inv4 s

theorem Inv.init : Inv {} := ⟨Inv1.init, Inv2.init, Inv3.init, Inv4.init⟩

theorem Inv.step {s t : St} {ev : Ev} (h : Inv s) (hs : PE.step s ev = some t) : Inv t :=
  ⟨h.i1.step hs, h.i2.step h.i1 hs, h.i3.step hs, h.i4.step h.i1 hs⟩

/-- every state any history reaches -/
theorem Inv.run {s t : St} {evs : List Ev} (h : Inv s) (hs : PE.run s evs = some t) : Inv t := by
  induction evs generalizing s with
  | nil => simp [PE.run] at hs; exact hs ▸ h
  | cons ev rest ih =>
    simp only [PE.run] at hs
    split at hs
    · exact ih (h.step ‹_›) hs
    · simp at hs

end Terway.PE
''')
print('\n'.join(out))
