# generates Proofs/PodEniSafe.lean: atomic facts of the safety invariant and their preservation per actor
facts = [
 ('J2', 'a record on its way out names a pod instance that is not running',
  '∀ c, s.rcd = some c → (c.phase = .detaching ∨ c.phase = .deleting ∨ c.del = true) → NotRunning s c.uid'),
 ('J3', 'the pod instance a record names needs the record',
  '∀ c q, s.rcd = some c → s.pod = some q → c.uid = q.uid → q.needs = true'),
 ('PDel', 'podDelete / pending unconditional delete: the record names an instance that is not running',
  '(s.p = .del ∨ s.p = .delRec) → ∀ c, s.rcd = some c → NotRunning s c.uid'),
 ('PCre', 'podCreate: the instance it saw is the newest so far, and the record names that one or an older one',
  '∀ u, s.p = .cre u → (∀ c, s.rcd = some c → c.uid ≤ u) ∧ (∀ q, s.pod = some q → u ≤ q.uid)'),
 ('PUpd', 'a pending status write: if the record is still the one read, its instance is not running',
  '∀ v ph, s.p = .upd v ph → (ph = .detaching ∨ ph = .deleting) ∧ ∀ c, s.rcd = some c → c.ver = v → NotRunning s c.uid ∧ (ph = .detaching → c.phase ≠ .unbind ∧ c.phase ≠ .detaching ∧ c.phase ≠ .deleting)'),
 ('PRec', 'reConfig: if the record is still the one read, it is unbound and owned by the uid read',
  '∀ u v ru, s.p = .reconf u v ru → ∀ c, s.rcd = some c → c.ver = v → c.phase = .unbind ∧ c.del = false ∧ c.uid = ru'),
 ('EDet', 'detach / tear-down in flight: the record is still that one and still on its way out',
  '∀ r tear, s.e = .detach r tear → (tear = true → r.del = true) ∧ (tear = false → r.phase = .detaching ∧ r.del = false) ∧ s.rcd ≠ none ∧ ∀ c, s.rcd = some c → c.allocs = r.allocs ∧ c.uid = r.uid ∧ (c.del = true ∨ c.phase = .detaching ∨ c.phase = .deleting) ∧ (r.del = true → c.del = true)'),
 ('EAtt', 'attach in flight: the record read was initial or binding',
  '∀ r fn i f, s.e = .attach r fn i f → (r.phase = .initial ∨ r.phase = .binding) ∧ r.del = false'),
 ('EDel', 'pending delete of a Deleting record: it still is',
  's.e = .delRec → s.rcd ≠ none ∧ ∀ c, s.rcd = some c → c.phase = .deleting ∨ c.del = true'),
 ('GSeen', 'the collector found the pod absent or not needing the record: if the record is still the one listed, its instance is not running',
  '∀ r p ne, s.g = .seen r p ne → p.requires ne = false → ∀ c, s.rcd = some c → c.ver = r.ver → NotRunning s c.uid'),
]
names=[f[0] for f in facts]
actors = {
 'stepEnv': '',
 'stepP': 'pAfterDel, pAfterCre, podMatches_live, podMatches_absent, podMatches_exited, podMatches_term',
 'stepE': 'podMatches_live, podMatches_absent, podMatches_exited, podMatches_term',
 'stepG': 'seenMatches_absent, seenMatches_present, requires_false',
 'stepL': '',
}
out=['''import TerwayModel.Proofs.PodEni
/-
Safety invariant of the PodENI lifecycle model: a record that is being detached or deleted names a pod
instance that is not running, and what each actor has decided but not yet written stays justified.
(Generated layout: one definition per fact, one preservation lemma per fact and actor.)
-/
namespace Terway.PE

theorem Phase.cases (p : Phase) :
    p = .initial ∨ p = .bind ∨ p = .binding ∨ p = .unbind ∨ p = .detaching ∨ p = .deleting := by
  cases p <;> simp

theorem requires_false {p : PodSeen} {ne : Bool} (h : p.requires ne = false) :
    p = .absent ∨ ∃ u ex n, p = .present u ex n ∧ (ex = true ∨ (n = false ∧ ne = false)) := by
  cases p with
  | absent => exact .inl rfl
  | present u ex n =>
    refine .inr ⟨u, ex, n, rfl, ?_⟩
    cases ex <;> cases n <;> cases ne <;> simp_all [PodSeen.requires]
''']
for n,doc,body in facts:
    out.append(f'/-- {doc} -/\ndef {n} (s : St) : Prop :=\n  {body}\n')
out.append('structure Inv2 (s : St) : Prop where')
for n in names:
    out.append(f'  f{n} : {n} s')
out.append('\ntheorem Inv2.init : Inv2 {} := by\n  constructor <;> simp [' + ', '.join(names) + ']\n')
obt2='⟨' + ', '.join(f'b{i}' for i in range(len(names))) + '⟩'
allf=', '.join(names)+', NotRunning, cases Phase'
for n,_,_ in facts:
    for a,ah in actors.items():
        simp = 'deleteRec_some _ _ (by assumption : s.rcd = some _), bindRec, ' if a in ('stepP','stepE') else ''
        hints = ', '.join(x for x in ['SnapOK, pStatusOK_true, markDel_uid, markDel_phase, markDel_allocs, markDel_del, markDel_ver, markDel_of_del', allf, ah] if x)
        out.append(f'''set_option maxHeartbeats 1000000 in
theorem {n}.{a} {{s t : St}} {{ev : Ev}} (h1 : Inv1 s) (h : Inv2 s) (hs : PE.{a} s ev = some t) : {n} t := by
  obtain ⟨a1, a2, a3, a4, a4b, a5, a5b, a5c, a6, a6b, a7, a7b⟩ := h1
  obtain {obt2} := h
  revert hs
  fun_cases PE.{a} s ev <;> intro hs <;> (first | cases hs | skip)
  all_goals (try simp only [{simp}bump_some _ _ _ (by assumption : s.rcd = some _)])
  all_goals (first | assumption | grind [{hints}])
''')
for a in actors:
    out.append(f'theorem Inv2.{a} {{s t : St}} {{ev : Ev}} (h1 : Inv1 s) (h : Inv2 s) (hs : PE.{a} s ev = some t) : Inv2 t :=\n  ⟨' + ', '.join(f'{n}.{a} h1 h hs' for n in names) + '⟩\n')
out.append('''theorem Inv2.step {s t : St} {ev : Ev} (h1 : Inv1 s) (h : Inv2 s) (hs : PE.step s ev = some t) : Inv2 t := by
  cases ev <;> simp only [PE.step] at hs <;>
    first | exact h.stepEnv h1 hs | exact h.stepP h1 hs | exact h.stepE h1 hs | exact h.stepG h1 hs | exact h.stepL h1 hs | exact (stepD_eq hs) ▸ h

end Terway.PE
''')
print('\n'.join(out))
