import TerwayModel.Model.Net
import TerwayModel.Props.C14
