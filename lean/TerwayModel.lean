import TerwayModel.Model.Net
import TerwayModel.Props.C14
import TerwayModel.Model.Token
import TerwayModel.Props.C16
import TerwayModel.Model.VSwitch
import TerwayModel.Props.C17
import TerwayModel.Model.Bandwidth
import TerwayModel.Props.C15
